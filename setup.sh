#!/bin/bash
# MANIFEST.setup_cmd: offline, idempotent. Verifies the interpreter and its libraries; installs
# hypothesis/networkx from the offline wheelhouse into /verif/.deps only if /venv lacks them.
set -u
cd "$(dirname "$0")"
PY="${VERIF_PYTHON:-/venv/bin/python}"
need=""
for m in hypothesis networkx; do
  if ! PYTHONPATH="$PWD/.deps" "$PY" -c "import $m" 2>/dev/null; then need="$need $m"; fi
done
if [ -n "$need" ]; then
  mkdir -p .deps
  "$PY" -m pip install --no-index --find-links /opt/veriftools/wheels --target .deps $need || exit 1
fi
PYTHONPATH="${ONL_REPO:-/repo}:$PWD:$PWD/.deps" "$PY" - <<'PY' || exit 1
import hypothesis, networkx, onl, sys
print("setup ok: python", sys.version.split()[0], "hypothesis", hypothesis.__version__, "networkx", networkx.__version__, "onl", onl.__file__)
PY
mkdir -p evidence replays
