"""Hypothesis strategies for kernel programs (DESIGN 3.2). Generation is by construction: references
are resolved modulo what exists at run time, so nothing is filtered."""
from hypothesis import strategies as st

from .common import GRID

vals = st.one_of(st.none(), st.integers(0, 9), st.sampled_from(["a", "b", "", False, 0.0, 0, "@exc", "@intr"]))
delays = st.sampled_from(GRID)
small = st.integers(0, 7)
excs = st.tuples(st.sampled_from(["ValueError", "KeyError", "RuntimeError", "HErr", "HErr2", "HBase", "IndexError", "AttributeError",
                                  "TypeError", "LookupError", "ValueError", "HErr"]),
                 st.lists(st.one_of(st.integers(0, 3), st.sampled_from(["x", "y"])), max_size=2)).map(list)
_stopproc = st.tuples(st.just("StopProcess"), st.lists(st.sampled_from([0, 1, "x"]), min_size=1, max_size=1)).map(list)
excs = st.integers(0, 15).flatmap(lambda k, _b=excs: _stopproc if k == 0 else _b)

POLS = ["continue", "rewait", "propagate", "terminate", "raise"]


def weighted(pairs):
    """one_of() silently drops repeated alternatives, so weights go through an index draw"""
    idx = []
    strategies = []
    for i, (s, w) in enumerate(pairs):
        strategies.append(s)
        idx.extend([i] * w)
    return st.sampled_from(idx).flatmap(lambda i: strategies[i])


def policies(allowed=None, other=True, bias=(), dl=None):
    base = [p for p in POLS if allowed is None or p in allowed]
    alts = [st.sampled_from(list(bias) + base)]
    if other and (allowed is None or "other" in allowed):
        alts.append((delays if dl is None else dl).map(lambda d: ["other", d]))
    return st.one_of(*alts)


def cond_trees(depth=3, max_arity=4, delays=delays):
    leaf = weighted([
        (st.tuples(st.just("ev"), small).map(list), 2),
        (st.tuples(st.just("to"), delays, vals).map(list), 3),
        (st.tuples(st.just("proc"), small).map(list), 1),
    ])

    def extend(children):
        return weighted([
            (st.tuples(st.sampled_from(["all", "any"]), st.lists(children, min_size=2, max_size=max_arity)).map(list), 4),
            (st.tuples(st.sampled_from(["and", "or"]), children, children).map(list), 2),
            (st.tuples(st.sampled_from(["all", "any"]), st.lists(children, min_size=0, max_size=1)).map(list), 1),
        ])

    t = leaf
    for _ in range(depth):
        t = weighted([(leaf, 3), (extend(t), 1)])

    # operator chains as people write them: a & b & c & d == ((a & b) & c) & d, likewise with |
    def chain(op):
        return st.lists(leaf, min_size=3, max_size=5).map(
            lambda ls: [op, [op, ls[0], ls[1]], ls[2]] if len(ls) == 3 else
            ([op, [op, [op, ls[0], ls[1]], ls[2]], ls[3]] if len(ls) == 4 else [op, [op, [op, [op, ls[0], ls[1]], ls[2]], ls[3]], ls[4]]))
    return weighted([(extend(t), 5), (chain("and"), 1), (chain("or"), 1)])


def instrs(weights, pol=None, ipol=None, trees=None, delays=delays):
    pol = policies() if pol is None else pol
    ipol = policies() if ipol is None else ipol
    table = {
        "timeout": st.tuples(st.just("timeout"), delays, vals, pol, ipol).map(list),
        "wait": st.tuples(st.just("wait"), small, pol, ipol).map(list),
        "join": st.tuples(st.just("join"), small, pol, ipol).map(list),
        "succeed": st.tuples(st.just("succeed"), small, vals).map(list),
        "fail": st.tuples(st.just("fail"), small, excs).map(list),
        "cb": st.tuples(st.just("cb"), small, st.booleans()).map(list),
        "cbjoin": st.tuples(st.just("cbjoin"), small, st.booleans()).map(list),
        "chain": st.tuples(st.just("chain"), small, st.booleans(), pol, ipol).map(list),
        "cbintr": st.tuples(st.just("cbintr"), small, small, vals).map(list),
        "spawn": st.tuples(st.just("spawn"), small).map(list),
        "interrupt": st.tuples(st.just("interrupt"), small, vals).map(list),
        "neg_timeout": st.tuples(st.just("neg_timeout"), st.sampled_from([-1, -0.5, -0.1, -3, -1e-9, -2.5e-10, -1e-12, -1e-300, -5e-324])).map(list),
        "burn": st.tuples(st.just("burn"), st.sampled_from([0, 0.125, 0.25, 0.5, 1, 2, 4])).map(list),
        "return": st.tuples(st.just("return"), vals).map(list),
        "raise": st.tuples(st.just("raise"), excs).map(list),
    }
    if trees is not None:
        table["wait_cond"] = st.tuples(st.just("wait_cond"), trees, pol, ipol).map(list)
    return weighted([(table[op], w) for op, w in weights.items()])


def programs(weights, max_bodies=5, max_instrs=7, max_start=5, max_nev=4, pol=None, ipol=None, trees=None,
             inits=(0, 0, 5, 2.5, 0.1), delay_set=None, min_nev=0, min_start=1, min_instrs=1, min_bodies=1):
    dl = delays if delay_set is None else st.sampled_from(list(delay_set))
    ins = instrs(weights, pol, ipol, trees, delays=dl)
    return st.fixed_dictionaries({
        "init": st.sampled_from(list(inits)),
        "nev": st.integers(min_nev, max_nev),
        "bodies": st.lists(st.lists(ins, min_size=min_instrs, max_size=max_instrs), min_size=min_bodies,
                           max_size=max_bodies),
        "start": st.lists(small, min_size=min_start, max_size=max_start),
        # some of the shared events are shared Timeout objects (a common deadline) instead of plain events
        "shared_timeouts": st.lists(st.one_of(st.none(), st.none(), st.tuples(dl, vals).map(list)), max_size=max_nev),
    })


def programs_roles(roles, max_instrs=7, max_start=6, max_nev=3, pol=None, ipol=None, trees=None,
                   inits=(0, 0, 5, 2.5, 0.1), delay_set=None, min_nev=0, min_start=1):
    """like programs(), but body i is drawn with roles[i]'s weight table (e.g. victims vs interrupters)"""
    dl = delays if delay_set is None else st.sampled_from(list(delay_set))
    bodies = st.tuples(*[st.lists(instrs(w, pol, ipol, trees, delays=dl), min_size=1, max_size=max_instrs)
                         for w in roles]).map(list)
    return st.fixed_dictionaries({
        "init": st.sampled_from(list(inits)),
        "nev": st.integers(min_nev, max_nev),
        "bodies": bodies,
        "start": st.lists(st.integers(0, len(roles) - 1), min_size=min_start, max_size=max_start),
    })
