"""Shared harness for the scheduler properties C12-C15: build a scheduler from a JSON spec, feed a workload through
taps, record arrivals/exits/counter samples, and derive the service timeline (start/exit per packet)."""
from fractions import Fraction
from math import inf

from hypothesis import strategies as st

from onl.scheduler import DRR, RR, SP, VC, WFQ, WRR

from . import kgen, netlab
from .common import HarnessError, Violation
from .netlab import F, Lab

KINDS = ("SP", "WFQ", "VC", "DRR", "RR", "WRR")


def f2c_fn(spec):
    m = {int(k): v for k, v in (spec.get("f2c") or {}).items()} if isinstance(spec.get("f2c"), dict) else dict(spec.get("f2c") or [])
    return (lambda f: m.get(f, f)), m


def build(spec, env):
    kind, rate = spec["kind"], spec["rate"]
    table = [(a, b) for a, b in spec["table"]]
    fn, _ = f2c_fn(spec)
    if kind == "SP":
        return SP(env, rate, dict(table), flow2class=fn)
    if kind == "WFQ":
        return WFQ(env, rate, dict(table), flow2class=fn)
    if kind == "VC":
        return VC(env, rate, dict(table), flow2class=fn)
    if kind == "DRR":
        return DRR(env, rate, dict(table), flow2class=fn)
    if kind == "RR":
        return RR(env, rate, [a for a, _ in table])
    if kind == "WRR":
        return WRR(env, rate, dict(table))
    raise HarnessError(kind)


class Run:
    """everything observed in one scheduler run"""

    def __init__(self, spec, clause="C12.no_exception", monitor=None, lab=None, detach_out=False, record_states=False):
        self.spec = spec
        self.lab = lab = lab if lab is not None else Lab(clause=clause)
        self.sched = sched = build(spec, lab.env)
        self.out = lab.tap("out")
        sched.out = self.out
        # the next hop may look back at the scheduler the moment a packet is handed to it (back-pressure, accounting): the packet
        # being handed over has left - it is neither waiting nor in transmission any more
        self.out.on_put = lambda rec: self._counters("C12.counters/handoff", at_handoff=True)
        self.detached = detach_out
        self.record_states = record_states or detach_out     # polling size(f) of every flow has a side effect (it registers the flow)
        self.states = []        # (now, per-flow (size, bytes), id of the packet in service) after every step
        if detach_out:
            sched.out = None    # a scheduler without a next hop is legal: transmitted packets simply leave the simulation
        self.entry = lab.tap("in", sched)
        self.flows = sorted({w[1] for w in spec["wl"]})
        self.samples = []       # (step, now, id(packet_in_service) or None)
        self.pkts = lab.inject(self.entry, spec["wl"])
        # creation time is not arrival time: packets may have been on a wire for a while (no scheduler may rely on packet.time)
        for i, p in enumerate(self.pkts):
            ages = spec.get("ages")
            if ages:
                p.time = p.time - ages[i % len(ages)]
        self.late = {id(p): w[4] for p, w in zip(self.pkts, spec["wl"])}
        self._start_step = None
        lab.after_step.append(self._after_step)
        self.counter_checks = 0
        self.monitor = None
        if monitor is not None:
            monitor(self)

    def _after_step(self):
        sched = self.sched
        if self.record_states:
            p = sched.packet_in_service
            self.states.append((self.lab.env.now, tuple((f, sched.size(f), sched.byte_size(f)) for f in self.flows),
                                None if p is None else p.packet_id))
        if self.detached:
            return
        self._counters("C12.counters/flow")
        self.counter_checks += 1
        self.samples.append((self.lab.steps, self.lab.env.now, self.sched.packet_in_service))

    def _counters(self, sig, at_handoff=False):
        lab, sched = self.lab, self.sched
        # (c) counters == packets of that flow entered and not exited (waiting or in transmission)
        ent = {}
        for r in self.entry.recs:
            f = r.snap[1]
            e = ent.setdefault(f, [0, 0])
            e[0] += 1
            e[1] += r.snap[3]
        for r in self.out.recs:
            e = ent[r.snap[1]]
            e[0] -= 1
            e[1] -= r.snap[3]
        if self.spec.get("probe_all") and lab.env.now >= self.spec.get("probe_from", 0):
            # a user may poll the counters of any configured flow, also one that has not sent anything yet (0 packets, 0 bytes)
            for f in self.flows:
                ent.setdefault(f, [0, 0])
        tot = 0
        for f, (n, b) in ent.items():
            tot += n
            if sched.size(f) != n or sched.byte_size(f) != b:
                lab.flag("C12.counters", f"flow {f}: size()={sched.size(f)} byte_size()={sched.byte_size(f)} but {n} packets / {b} "
                                         f"bytes of it are waiting or in transmission (t={lab.env.now}"
                                         f"{', read by the next hop while a packet is handed to it' if at_handoff else ''})", sig)
                return
        if sched.total_packets != tot:
            lab.flag("C12.counters", f"total_packets={sched.total_packets}, {tot} held", "C12.counters/total")

    def go(self, until=inf):
        return self.lab.run(until=until)

    def timeline(self, exact):
        """service start s_k / exit x_k per exit from the taps; checks the rate-exact work-conserving law (C12 a)."""
        rate = F(self.spec["rate"])
        ins, outs = self.entry.recs, self.out.recs
        by_obj = {id(r.pkt): r for r in ins}
        exited = set()
        tl = []
        prev_x = None
        # arrival instants of not-yet-exited packets, in arrival order
        order = sorted(ins, key=lambda r: r.seq)
        for k, ro in enumerate(outs):
            ri = by_obj.get(id(ro.pkt))
            if ri is None:
                raise Violation("C08.invented", "a packet that never entered left the scheduler", "C08.invented/sched")
            if id(ro.pkt) in exited:
                raise Violation("C12.exactly_once", f"packet {ro.snap[0]} transmitted twice", "C12.exactly_once/twice")
            if ri.snap != ro.snap:
                raise Violation("C08.fields", f"fields changed in the scheduler: {ri.snap} -> {ro.snap}", "C08.fields/sched")
            first_pending = next(r for r in order if id(r.pkt) not in exited)
            a_min = F(first_pending.now)
            s = a_min if prev_x is None else max(prev_x, a_min)
            x = F(ro.now)
            want = s + F(8 * ri.snap[3]) / rate
            # float domain: the kernel adds one rounded service time to `now`; a few ulps is all a correct implementation can be off
            ok = (x == want) if exact else abs(float(x) - float(want)) <= 1e-12 * max(1.0, abs(float(want)))
            if not ok:
                kind = "idle-with-backlog-or-slow" if x > want else "overlap-or-fast"
                raise Violation("C12.service_law", f"exit #{k + 1} (packet {ro.snap[0]}, flow {ro.snap[1]}, size {ri.snap[3]}) at "
                                                   f"{ro.now!r}; previous exit {prev_x if prev_x is None else float(prev_x)!r}, earliest "
                                                   f"waiting arrival {float(a_min)!r}: expected start {float(s)!r} + 8*size/rate = "
                                                   f"{float(want)!r}", "C12.service_law/" + kind)
            if F(ri.now) > s:
                raise Violation("C12.service_law", f"packet {ro.snap[0]} arrived at {ri.now!r}, after its transmission must have "
                                                   f"started ({float(s)!r})", "C12.service_law/served-before-arrival")
            tl.append({"k": k, "in": ri, "out": ro, "s": s, "x": x, "idle_before": prev_x is None or a_min > prev_x,
                       "prev_out_seq": outs[k - 1].seq if k else None})
            exited.add(id(ro.pkt))
            prev_x = x
        return tl

    def check_all_exited(self):
        ins, outs = self.entry.recs, self.out.recs
        known = {id(r.pkt) for r in ins}
        seen = set()
        for o in outs:
            if id(o.pkt) not in known:
                raise Violation("C12.exactly_once", f"the scheduler transmitted a packet that never entered it (id {o.snap[0]}, flow "
                                                    f"{o.snap[1]}, t={o.now})", "C12.exactly_once/foreign")
            if id(o.pkt) in seen:
                raise Violation("C12.exactly_once", f"packet {o.snap[0]} of flow {o.snap[1]} transmitted twice", "C12.exactly_once/twice")
            seen.add(id(o.pkt))
        if len(outs) != len(ins):
            missing = [r.snap[:2] for r in ins if all(o.pkt is not r.pkt for o in outs)]
            raise Violation("C12.exactly_once", f"{len(ins)} packets entered, {len(outs)} transmitted; never transmitted "
                                                f"(packet id, flow): {missing[:5]}", "C12.exactly_once/lost")

    def check_flow_fifo(self):
        last = {}
        by_obj = {id(r.pkt): r for r in self.entry.recs}
        for ro in self.out.recs:
            ri = by_obj[id(ro.pkt)]
            f = ri.snap[1]
            if f in last and ri.seq < last[f]:
                raise Violation("C12.flow_fifo", f"flow {f}: packet {ri.snap[0]} left after a later packet of its flow",
                                "C12.flow_fifo")
            last[f] = ri.seq

    def certainly_waiting(self, item):
        """packets that had certainly arrived when the scheduler chose `item` (arrival observed before the previous exit)
        and had not been transmitted yet"""
        if item["idle_before"]:
            # After an idle period the scheduler can only react through an event created at (or after) the first arrival's
            # step; arrivals that were already on the agenda for this instant (early injection) are processed before any
            # such event, so they had certainly arrived when transmission of `item` began (DESIGN 3.5, C01 trigger order).
            if self._start_step is None:
                self._start_step = {}
                for step, now, p in self.samples:
                    if p is not None and id(p) not in self._start_step:
                        self._start_step[id(p)] = step
            c = self._start_step.get(id(item["in"].pkt))
            if c is None:
                return []
            t0 = item["in"].now
            first = min((r for r in self.entry.recs if r.now == t0), key=lambda r: r.seq)
            if c <= first.step:
                return []       # transmission began within the first arrival's own step: decided synchronously
            return [r for r in self.entry.recs if r.now == t0 and r.step < c and self.late.get(id(r.pkt), 1) == 0
                    and r.pkt is not item["in"].pkt and F(r.now) == item["s"]]
        cut = item["prev_out_seq"]
        gone = {id(o.pkt) for o in self.out.recs[:item["k"]]}
        return [r for r in self.entry.recs if r.seq < cut and id(r.pkt) not in gone and r.pkt is not item["in"].pkt]


# -------------------------------------------------------------------------------------------------- strategies
SIZES_NICE = [64, 128, 256, 512, 1024, 1536, 2048, 3072]


def sched_workload(flows, n_max, exact=True, unique_offsets=False, static=False, sizes=None):
    """workloads aimed at schedulers: bursts, idle gaps, arrivals exactly at transmission ends (nice sizes/rates)"""
    flows = list(flows)
    sizes = st.sampled_from(SIZES_NICE) if sizes is None else sizes
    if static:
        item = st.tuples(st.just(0), st.sampled_from(flows), sizes, st.just(None), st.just(0))
        return st.lists(item, min_size=4, max_size=n_max).map(lambda xs: [list(x) for x in xs])
    if exact:
        gap = kgen.weighted([(st.just(0), 4), (st.sampled_from([1 / 16, 1 / 8, 1 / 4, 1 / 2, 1, 2]), 5), (st.sampled_from([4, 16]), 1),
                             (st.integers(1, 2048).map(lambda k: k / 1024), 1)])
    else:
        gap = kgen.weighted([(st.just(0.0), 3), (st.sampled_from([0.01, 0.1, 0.3, 0.7, 1.1]), 4),
                             (st.floats(1e-3, 3.0, allow_nan=False, allow_infinity=False), 2)])
    item = st.tuples(gap, st.sampled_from(flows), sizes, st.just(None), st.sampled_from([0, 0, 0, 1, 2]))

    def build(items):
        t = 0
        out = []
        for i, (g, f, s, p, k) in enumerate(items):
            t = t + g
            tt = t
            if unique_offsets:
                k = 0                             # early injection only: the t=0 batch is complete before the first decision
                if t > 0:
                    tt = t + (i + 1) / 65536      # unique low bits: no arrival ever coincides with a transmission end
            out.append([tt, f, s, p, k])
        if unique_offsets:
            out.sort(key=lambda w: w[0])
        return out
    return st.lists(item, min_size=4, max_size=n_max).map(build)


def nice_rate():
    """rates for which 8*size/rate of the nice sizes are multiples of 1/16 .. 1/256"""
    return st.sampled_from([8 * 1024, 8 * 1024, 8 * 1024, 8 * 512, 8 * 4096, 8 * 16384])
