"""Netlab: taps, injectors, drivers and workload strategies for the network-layer properties (DESIGN 3.3, 3.4)."""
from fractions import Fraction
from math import inf

from hypothesis import strategies as st

from onl.packet import Packet
from onl.sim import Environment

from . import kgen
from .common import HarnessError, Inconclusive, Violation, WatchdogTrip, crash

FIELDS = ("packet_id", "flow_id", "src", "size", "time", "payload")


def snap(pkt):
    return tuple(getattr(pkt, f, None) for f in FIELDS)


class Rec:
    __slots__ = ("seq", "now", "pkt", "snap", "color", "perhop", "step")

    def __init__(self, seq, now, pkt, step):
        self.seq = seq
        self.now = now
        self.pkt = pkt
        self.snap = snap(pkt)
        self.color = getattr(pkt, "color", None)
        self.perhop = dict(getattr(pkt, "perhop_time", {}) or {})
        self.step = step


class Tap:
    """A put() device that records what passes and forwards the very same object."""

    def __init__(self, lab, name, out=None):
        self.lab = lab
        self.name = name
        self.out = out
        self.recs = []
        self.element_id = name
        self.drop = None        # optional set of 0-based transmission indices to swallow (C16)
        self.on_put = None

    def put(self, pkt):
        lab = self.lab
        lab.seq += 1
        r = Rec(lab.seq, lab.env.now, pkt, lab.steps)
        self.recs.append(r)
        if self.on_put is not None:
            self.on_put(r)
        if self.drop is not None and (len(self.recs) - 1) in self.drop:
            return
        if self.out is not None:
            self.out.put(pkt)


INJECT_AGES = [0, 0.5, 0, 2, 0.125, 0, 64, 1]


class Lab:
    def __init__(self, env=None, clause="C08.no_exception", budget=200000):
        self.env = env or Environment()
        self.seq = 0
        self.steps = 0
        self.after_step = []
        self.clause = clause
        self.budget = budget
        self.problems = []
        self.packets = []
        self.taps = []
        self.driver = None      # optional callable(lab, until) replacing the stepping loop (C03 split runs)

    def tap(self, name, out=None):
        t = Tap(self, name, out)
        self.taps.append(t)
        return t

    def global_trace(self):
        """everything every tap saw, in global action order"""
        recs = [(r.seq, t.name, r.now, r.snap, r.color) for t in self.taps for r in t.recs]
        recs.sort()
        return [list(x[1:]) for x in recs]

    def flag(self, clause, detail, sig=None):
        self.problems.append(Violation(clause, detail, sig or clause))

    def check(self):
        if self.problems:
            raise self.problems[0]

    def inject(self, entry, workload, src_prefix="src"):
        """workload: list of [t, flow, size, payload, late_k]; creates packets with ids 1.. in list order and
        schedules their arrival at `entry` (early: pre-scheduled timeout; late: behind k zero-delay hops)."""
        env = self.env
        pkts = []
        for i, w in enumerate(workload):
            t, flow, size, payload, late = w
            # creation time is not arrival time: most packets have been under way for a while when they reach the element under
            # test (queues and hops upstream); no element may take packet.time for the instant of arrival
            age = INJECT_AGES[(i * 5 + len(workload)) % len(INJECT_AGES)]
            # every packet carries its own flow-id object (ids parsed from headers are equal, not identical)
            fid = int(str(flow)) if isinstance(flow, int) and not isinstance(flow, bool) else flow
            pkt = Packet(t - age, size, i + 1, src=f"{src_prefix}{flow}", flow_id=fid, payload=payload)
            pkts.append(pkt)
            self._arrive(entry, pkt, t, late)
        self.packets.extend(pkts)
        return pkts

    def _arrive(self, entry, pkt, t, late):
        env = self.env
        delay = t - env.now
        if delay < 0:
            raise HarnessError("arrival in the past")
        ev = env.timeout(delay)

        def fire(_e, k=late):
            if k <= 0:
                self._put(entry, pkt)
            else:
                e2 = env.timeout(0)
                e2.callbacks.append(lambda _x: fire(_x, k - 1))
        ev.callbacks.append(fire)

    def _put(self, entry, pkt):
        try:
            entry.put(pkt)
        except (HarnessError, WatchdogTrip, Violation):
            raise
        except BaseException as e:
            self.problems.append(crash(self.clause, e, f"in put() of packet {pkt.packet_id} at t={self.env.now}"))

    def run(self, until=inf):
        """harness stepping loop to agenda exhaustion (or simulated-time horizon)"""
        env = self.env
        if self.driver is not None:
            self.driver(self, until)
        while env.peek() < until:
            self.steps += 1
            if self.steps > self.budget:
                raise Inconclusive("step budget")
            try:
                env.step()
            except (HarnessError, WatchdogTrip, Violation, Inconclusive):
                raise
            except BaseException as e:
                self.check()
                raise crash(self.clause, e, f"escaped the run at t={env.now}")
            self.check()
            for hook in self.after_step:
                hook()
        self.check()
        if until != inf and env.now < until:
            env.run(until=until)        # move the clock to the horizon (nothing due at `until` is processed)
        return env.peek() == inf


def F(x):
    return Fraction(x)


# ------------------------------------------------------------------------------------ workload strategies
def tick_times(max_ticks=64 * 1024, denom=1024):
    """exact-domain instants: multiples of 2^-10"""
    return st.integers(0, max_ticks).map(lambda k: k / denom)


def workload(flows, n_max=40, exact=True, sizes=None, t_max=8.0, burst=True, late=True, min_size=1):
    """list of [t, flow, size, payload, late_k], sorted by t (stable)"""
    flows = list(flows)
    if sizes is None:
        sizes = kgen.weighted([(st.sampled_from([1, 40, 64, 100, 512, 1000, 1500, 3000]), 3), (st.integers(1, 3000), 1)])
    if exact:
        gap = kgen.weighted([(st.just(0), 3 if burst else 0), (st.sampled_from([1 / 1024, 1 / 64, 1 / 8, 0.5, 1, 2]), 3),
                             (st.integers(1, 4096).map(lambda k: k / 1024), 2)])
    else:
        gap = kgen.weighted([(st.just(0.0), 3 if burst else 0), (st.sampled_from([0.001, 0.01, 0.1, 0.3, 0.7, 1.1]), 3),
                             (st.floats(1e-4, 3.0, allow_nan=False, allow_infinity=False), 2)])
    item = st.tuples(gap, st.sampled_from(flows), sizes, st.sampled_from([None, "p", 7]),
                     st.sampled_from([0, 0, 0, 1, 2]) if late else st.just(0))

    def build(items):
        t = 0
        out = []
        for g, f, s, p, k in items:
            t = t + g
            out.append([t, f, s, p, k])
        return out
    return st.lists(item, min_size=min_size, max_size=n_max).map(build)


EXACT_RATES = [8 * 2 ** k for k in range(0, 21)]       # bits/s; 8*size/rate exact for integer sizes


def exact_rate(lo=3, hi=20):
    return st.sampled_from(EXACT_RATES[lo:hi + 1])
