"""Kernel program DSL + tracing environment (DESIGN 3.1, 3.2).

A *program* is a JSON value
  {"init": t0, "nev": n, "bodies": [[instr...]...], "start": [body index...], "plan": [...]}
interpreted into real generator processes on a TracingEnvironment. All oracles work from the harness's
own bookkeeping (who waits on what, which interrupts are outstanding, which occurrence was triggered
when) and never from the kernel's callbacks lists or agenda.
"""
import heapq
from math import inf

from onl.sim.core import Environment, EmptySchedule
from onl.sim.events import (Condition, ConditionValue, Event, Initialize, Interruption, Process, Timeout)
from onl.sim.exceptions import Interrupt, StopProcess
from onl.sim.rt import RealtimeEnvironment
import onl.sim.rt as rt_mod

from .common import HarnessError, Inconclusive, Violation, WatchdogTrip, crash

MAX_PROCS = 14
STEP_BUDGET = 20000


class HErr(Exception):
    """harness-defined exception class used inside generated programs"""


class HErr2(Exception):
    pass


class HBase(BaseException):
    """a legal failure value (Event.fail accepts any BaseException) that is not an Exception"""


EXC = {"ValueError": ValueError, "KeyError": KeyError, "RuntimeError": RuntimeError,
       "HErr": HErr, "HErr2": HErr2, "ZeroDivisionError": ZeroDivisionError, "HBase": HBase,
       # exception types the kernel itself catches somewhere for its own purposes: a user's failure of that type is still a failure
       "IndexError": IndexError, "AttributeError": AttributeError, "TypeError": TypeError, "StopIteration": StopIteration,
       "LookupError": LookupError,
       # the library's own 'return a value' exception of Python 2 days: as a failure it is a failure like any other
       "StopProcess": StopProcess}


EXC_AS_VALUE = HErr("carried as a value, not a failure")
INTR_AS_VALUE = Interrupt("an interrupt received earlier and passed on")


def rv(v):
    """JSON programs carry tokens for values that are exception instances: an event may SUCCEED with one (a process returning
    a caught exception, an error object travelling through a store) - that is not a failure; and an interrupt's cause may be
    an Interrupt somebody received and forwards"""
    if v == "@exc":
        return EXC_AS_VALUE
    if v == "@intr":
        return INTR_AS_VALUE
    return v


def mkexc(spec):
    return EXC[spec[0]](*spec[1])


def exc_out(e):
    if not isinstance(e, BaseException):
        return ("exc", "<not an exception>", repr(e))
    return ("exc", type(e).__name__, list(e.args) if _plain(e.args) else repr(e.args))


def ev_outcome(ev):
    """public outcome of a triggered event"""
    return ("ok", ev.value) if ev.ok else exc_out(ev.value)


def _plain(x):
    if isinstance(x, (list, tuple)):
        return all(_plain(i) for i in x)
    return x is None or isinstance(x, (int, float, str, bool))


class _Terminate(Exception):
    def __init__(self, value):
        super().__init__(value)
        self.value = value


class Occ:
    __slots__ = ("seq", "kind", "cls", "due", "trig_now", "trig_step", "event", "proc_step", "proc_now",
                 "probes", "victim", "cause", "issuer", "delivered", "n_norm_at_issue", "pid", "hev", "optional")

    def __init__(self, seq, kind, cls, due, trig_now, trig_step, event):
        self.seq = seq
        self.kind = kind
        self.cls = cls
        self.due = due
        self.trig_now = trig_now
        self.trig_step = trig_step
        self.event = event
        self.proc_step = None
        self.proc_now = None
        self.probes = 0
        self.victim = None
        self.cause = None
        self.issuer = None
        self.optional = False       # a run(until) stop whose run() was left by an exception: the kernel may keep or drop it
        self.delivered = False
        self.n_norm_at_issue = None
        self.pid = None
        self.hev = None

    def key(self):
        return (self.due, 0 if self.cls == "U" else 1, self.seq)


class HEvent:
    """harness-side record of an event a program can wait on"""

    def __init__(self, name, ev, kind):
        self.name = name
        self.ev = ev
        self.kind = kind            # 'E' shared, 'T' timeout, 'P' process, 'C' condition
        self.expect = None          # ('ok', v) | ('exc', typename, args)
        self.W = []                 # ordered registrations: ('proc', pid, n) | ('cb', id, defuse)
        self.snapshot = None
        self.delivered = []
        self.processed_step = None
        self.processed_now = None
        self.occ = None
        self.tree = None            # for conditions: ('all'|'any', [child HEvent...])
        self.cond_regs = []         # conditions registered on this event at their construction
        self.build_step = None
        self.build_now = None
        self.abandoned = []         # pids interrupted away from this event before it was processed
        self.parent = None          # enclosing condition, if this is an operand
        self.decision = None


class PRec:
    def __init__(self, pid, body):
        self.pid = pid
        self.body = body
        self.process = None
        self.hev = None
        self.alive = True
        self.started = False
        self.start_step = None
        self.end_step = None
        self.waiting = None
        self.wait_reg = None
        self.wait_step = None
        self.wait_immediate = False
        self.nreg = 0
        self.intr_fifo = []
        self.init_occ = None
        self.interrupted_count = 0
        self.n_intr_instr = 0


class H:
    """harness state attached to a tracing environment"""

    def __init__(self):
        self.occs = []
        self.by_event = {}
        self.pending = []
        self.step_no = 0
        self.cur_occ = None
        self.step_probes = 0
        self.problems = []
        self.log = []
        self.virtual_until = None
        self.probe_hooks = []
        self.last_occ = None
        self.n_norm_processed = 0
        self.now_trace = []
        self.stats = {}
        self.in_step = False
        self.step_hooks = []
        self.hevs = {}
        self.fatal = None

    def flag(self, clause, detail, sig=None):
        self.problems.append(Violation(clause, detail, sig))

    def bump(self, k, n=1):
        self.stats[k] = self.stats.get(k, 0) + n


def make_tracing(base, peek=False):
    class Tracing(base):
        _peek_mode = peek

        def __init__(self, *a, **k):
            self.h = H()
            super().__init__(*a, **k)
            if self._peek_mode and not isinstance(getattr(self, "_queue", None), list):
                raise HarnessError("Environment._queue is not a list: peek-mode tracing impossible")

        def _head_occ(self):
            """zero-footprint identification of the occurrence the next step() will process: the head of the agenda.
            (Trusted; cross-checked by the resume-source clause: whoever is resumed must wait on that event.)"""
            head = self._queue[0]
            ev = head[-1] if isinstance(head, tuple) else None
            if not isinstance(ev, Event):
                raise HarnessError("agenda entries are not (..., Event) tuples")
            occ = self.h.by_event.get(id(ev))
            if occ is None or occ.event is not ev:
                return self._bind_until(ev)
            return occ

        def h_expect_until(self, t):
            """the harness is about to call run(until=<number t>): the stop is an urgent occurrence due at exactly t,
            triggered now (reference agenda entry; bound to the kernel's sentinel event when that shows up)"""
            h = self.h
            occ = Occ(len(h.occs), "until", "U", t, self.now, h.step_no, None)
            h.occs.append(occ)
            heapq.heappush(h.pending, (occ.key(), occ))
            h.virtual_until = occ
            return occ

        def h_abandon_until(self):
            """run(until=<number>) was left by an exception before its stop took effect: whether the kernel keeps the stop as
            a harmless entry of the agenda or takes it out again is not observable and not judged"""
            for o in self.h.occs:
                if o.kind == "until" and o.proc_step is None:
                    o.optional = True

        def _bind_until(self, event):
            h = self.h
            occ = h.virtual_until
            if occ is None or occ.event is not None or type(event) is not Event or id(event) in h.hevs:
                return None
            occ.event = event
            h.by_event[id(event)] = occ
            h.virtual_until = None
            return occ

        def schedule(self, event, priority=1, delay=0):
            h = self.h
            occ = self._bind_until(event)
            if occ is not None:
                if not self._peek_mode:
                    env = self
                    event.callbacks.insert(0, lambda ev, occ=occ: env._probe(occ))
                super().schedule(event, priority, delay)
                return
            if isinstance(event, Initialize):
                kind, cls = "init", "U"
            elif isinstance(event, Interruption):
                kind, cls = "intr", "U"
            elif isinstance(event, Timeout):
                kind, cls = "timeout", "N"
            elif isinstance(event, Condition):
                kind, cls = "cond", "N"
            elif isinstance(event, Process):
                kind, cls = "proc", "N"
            else:
                kind, cls = "event", "N"
            now = self.now
            occ = Occ(len(h.occs), kind, cls, now + delay, now, h.step_no, event)
            if id(event) in h.by_event and h.by_event[id(event)].event is event:
                h.flag("C02.once", f"event {event!r} scheduled twice", "C02.once/double-schedule")
            h.occs.append(occ)
            h.by_event[id(event)] = occ
            h.last_occ = occ
            heapq.heappush(h.pending, (occ.key(), occ))
            hev = h.hevs.get(id(event))
            if hev is not None and hev.ev is event:
                occ.hev = hev
                hev.occ = occ
            if not self._peek_mode:
                env = self

                def probe(ev, occ=occ):
                    env._probe(occ)

                cbs = event.callbacks
                if cbs is None:
                    raise HarnessError("scheduled event has no callbacks list")
                cbs.insert(0, probe)
            super().schedule(event, priority, delay)

        def _probe(self, occ):
            h = self.h
            occ.probes += 1
            h.step_probes += 1
            if occ.probes > 1:
                h.flag("C01.once", f"occurrence #{occ.seq} ({occ.kind}) processed twice", "C01.once")
                return
            occ.proc_step = h.step_no
            occ.proc_now = None if self._peek_mode else self.now
            h.cur_occ = occ
            for hook in h.probe_hooks:
                hook(occ)
            # reference agenda: the occurrence processed must be the minimum of what is pending
            while h.pending and (h.pending[0][1].proc_step is not None or h.pending[0][1].optional) and h.pending[0][1] is not occ:
                heapq.heappop(h.pending)
            if occ.optional:
                pass
            elif not h.pending:
                h.flag("C01.order", f"occurrence #{occ.seq} processed but nothing pending", "C01.order")
            else:
                exp = h.pending[0][1]
                if exp is not occ:
                    h.flag("C01.order",
                           f"step {h.step_no} at now={self.now}: processed #{occ.seq} {occ.kind}/{occ.cls} due={occ.due} "
                           f"but pending minimum is #{exp.seq} {exp.kind}/{exp.cls} due={exp.due}",
                           f"C01.order/{occ.kind}-before-{exp.kind}")
                else:
                    heapq.heappop(h.pending)
            if occ.cls == "N":
                h.n_norm_processed += 1
            hev = occ.hev
            if hev is None:
                hev = h.hevs.get(id(occ.event))
                if hev is not None and hev.ev is not occ.event:
                    hev = None
            if hev is not None:
                hev.processed_step = h.step_no
                hev.processed_now = occ.proc_now
                hev.snapshot = list(hev.W)
                hev.W = []

        def step(self):
            h = self.h
            before = self.now
            pk = self.peek()
            h.step_no += 1
            h.cur_occ = None
            h.step_probes = 0
            h.in_step = True
            exc = None
            if self._peek_mode and (pk != inf or self._queue):      # an occurrence may be due at infinity (run(until=inf))
                occ = self._head_occ()
                if occ is not None:
                    self._probe(occ)
            elif pk != inf and h.virtual_until is not None and isinstance(getattr(self, "_queue", None), list):
                # probe mode: a sentinel pushed onto the agenda without schedule() gets its probe here
                head = self._queue[0]
                ev = head[-1] if isinstance(head, tuple) else None
                if isinstance(ev, Event) and id(ev) not in h.by_event:
                    occ = self._bind_until(ev)
                    if occ is not None:
                        env = self
                        ev.callbacks.insert(0, lambda e, occ=occ: env._probe(occ))
            try:
                super().step()
            except BaseException as e:
                exc = e
                raise
            finally:
                h.in_step = False
                self._after_step(before, pk, exc)

        def _after_step(self, before, pk, exc):
            h = self.h
            now = self.now
            h.now_trace.append(now)
            if h.cur_occ is None:
                if exc is None:
                    h.flag("C01.untriggered", "a step processed an occurrence that was never triggered through schedule() "
                                              "nor announced as a run(until) stop", "C01.untriggered")
                return
            occ = h.cur_occ
            if exc is None or occ.event.callbacks is None:
                occ.proc_now = now
                if occ.hev is not None:
                    occ.hev.processed_now = now
                if now != occ.due:
                    h.flag("C01.exact_time", f"occurrence #{occ.seq} {occ.kind} due {occ.due!r} processed at now={now!r}",
                           "C01.exact_time")
            if not (now >= before):
                h.flag("C01.monotone", f"now went from {before!r} to {now!r}", "C01.monotone")
            if now != pk:
                h.flag("C01.peek", f"peek() said {pk!r}, step processed at {now!r}", "C01.peek")
            if h.step_probes != 1:
                h.flag("C01.once", f"{h.step_probes} occurrences processed in one step", "C01.once/step")
            for hook in h.step_hooks:
                hook(h.cur_occ, exc)

    Tracing.__name__ = "Tracing" + base.__name__
    return Tracing


TracingEnvironment = make_tracing(Environment, peek=True)
ProbeTracingEnvironment = make_tracing(Environment, peek=False)
TracingRealtimeEnvironment = make_tracing(RealtimeEnvironment)


class VirtualClock:
    """stand-in for time.monotonic/time.sleep inside onl.sim.rt (DESIGN 3.8)"""

    def __init__(self, script, start=1000.0):
        self.t = start
        self.script = list(script) or [1]
        self.i = 0
        self.sleeps = []
        self.zero_run = 0

    def monotonic(self):
        return self.t

    def sleep(self, d):
        f = self.script[self.i % len(self.script)]
        self.i += 1
        if f == 0:
            self.zero_run += 1
            if self.zero_run > 3:
                f = 1
        else:
            self.zero_run = 0
        self.sleeps.append((d, f))
        if len(self.sleeps) > 100000:
            raise Violation("C20.pacing", "step() called sleep() more than 100000 times in one run on the virtual clock (it never "
                                          "stops waiting although the clock advances)", "C20.pacing/runaway-sleep")
        if d > 0:
            adv = d * f
            if adv < 2.0 ** -16 or self.t + adv == self.t:
                adv = d         # a real sleep always makes progress; tiny early-return slices would vanish in rounding
            self.t += adv

    def burn(self, w):
        self.t += w


class Interp:
    """Interprets a program on a tracing environment."""

    def __init__(self, program, env, clock=None, on_cond=None, skip=None):
        self.skip = skip or set()
        self.refused = set()
        self.p = program
        self.env = env
        self.h = env.h
        self.clock = clock
        self.on_cond = on_cond
        self.events = []
        self.procs = []
        self.cbs = 0
        self.finished = False
        self.n_timeouts = 0
        h = self.h
        shared_to = program.get("shared_timeouts") or []
        for k in range(program.get("nev", 0)):
            spec = shared_to[k] if k < len(shared_to) else None
            if spec:
                # a shared deadline: one Timeout object that several processes (and conditions) wait on
                ev = env.timeout(spec[0], rv(spec[1]))
                hev = self._reg(ev, f"E{k}", "E")
                hev.expect = ("ok", rv(spec[1]))
                h.bump("shared_timeout")
            else:
                ev = env.event()
                hev = self._reg(ev, f"E{k}", "E")
            self.events.append(hev)
        h.step_hooks.append(self._step_hook)
        for b in program["start"]:
            self.spawn(b, None)

    # ---------------------------------------------------------------- bookkeeping helpers
    def _reg(self, ev, name, kind):
        hev = HEvent(name, ev, kind)
        self.h.hevs[id(ev)] = hev
        occ = self.h.by_event.get(id(ev))
        if occ is not None and occ.event is ev:
            hev.occ = occ
            occ.hev = hev
        return hev

    def log(self, pid, pc, what, data=None):
        self.h.log.append((self.env.now, pid, pc, what, data))

    def spawn(self, b, parent):
        if len(self.procs) >= MAX_PROCS:
            return None
        bodies = self.p["bodies"]
        b = b % len(bodies)
        pid = len(self.procs)
        P = PRec(pid, b)
        self.procs.append(P)
        proc = self.env.process(self._body(pid, bodies[b]))
        P.process = proc
        P.hev = self._reg(proc, f"P{pid}", "P")
        occ = self.h.last_occ
        if occ is None or occ.kind != "init":
            raise Violation("C01.start", f"creating P{pid} did not put its start on the agenda as the latest occurrence "
                                         f"(latest is {occ.kind if occ else None})", "C01.start/not-scheduled")
        occ.pid = pid
        P.init_occ = occ
        self.log(parent, None, "spawn", pid)
        return P

    def _step_hook(self, occ, exc):
        h = self.h
        # C04(a)/(e): an interrupt processed for a live victim must have been delivered in this very step
        if occ.kind == "intr" and occ.victim is not None:
            V = self.procs[occ.victim]
            if not occ.delivered:
                if V.alive or (V.end_step is not None and V.end_step >= h.step_no):
                    h.flag("C04.delivery", f"interrupt #{occ.seq} for live P{V.pid} processed but not delivered",
                           "C04.delivery/lost")
        if occ.kind == "init" and occ.pid is not None:
            P = self.procs[occ.pid]
            if not P.started:
                h.flag("C04.first_statement", f"P{P.pid} initialised without running its first statement",
                       "C04.first_statement")
        hev = occ.hev
        if hev is not None:
            for apid in hev.abandoned:
                A = self.procs[apid]
                if A.alive and A.waiting is not None and A.waiting is not hev:
                    h.bump("old_target_fired_elsewhere")
        if hev is not None and hev.snapshot is not None:
            if hev.delivered != hev.snapshot:
                h.flag("C02.all_waiters_once_in_order",
                       f"{hev.name}: waiting at processing {hev.snapshot}, invoked {hev.delivered}",
                       "C02.all_waiters_once_in_order")

    # ---------------------------------------------------------------- process bodies
    def _body(self, pid, instrs):
        try:
            result = yield from self._run_body(pid, instrs)
        except (GeneratorExit, WatchdogTrip):
            raise
        except HarnessError as e:
            self.h.fatal = e
            raise
        except Violation as v:
            self.h.problems.append(v)
            raise
        except _Terminate as t:
            self._end(pid, ("ok", t.value))
            return t.value
        except BaseException as e:
            self._end(pid, exc_out(e))
            raise
        self._end(pid, ("ok", result))
        return result

    def _end(self, pid, outcome):
        if self.finished:
            return
        P = self.procs[pid]
        P.alive = False
        P.end_step = self.h.step_no
        P.hev.expect = outcome
        self.log(pid, None, "end", outcome)

    def _ref_event(self, k):
        if not self.events:
            return None
        return self.events[k % len(self.events)]

    def _ref_proc(self, j, pid, allow_self):
        n = len(self.procs)
        t = j % n
        if t == pid and (not allow_self or (j // n) % 2 == 0):
            if n == 1:
                return None
            t = (t + 1) % n
        return self.procs[t]

    def _run_body(self, pid, instrs):
        env = self.env
        h = self.h
        P = self.procs[pid]
        P.started = True
        P.start_step = h.step_no
        if h.cur_occ is None or h.cur_occ is not P.init_occ:
            h.flag("C01.start", f"P{pid} started outside the step of its own start occurrence", "C01.start")
        self.log(pid, -1, "start")
        result = None
        for pc, ins in enumerate(instrs):
            op = ins[0]
            if op == "timeout":
                _, d, v, pol, ipol = ins
                v = rv(v)
                t0 = env.now
                ev = env.timeout(d, v)
                self.n_timeouts += 1
                hev = self._reg(ev, f"T{pid}.{pc}", "T")
                hev.expect = ("ok", v)
                occ = hev.occ
                if occ is None or occ.due != t0 + d:
                    h.flag("C01.exact_time", f"timeout({d!r}) created at {t0!r}: due {occ and occ.due!r}", "C01.exact_time/create")
                yield from self._wait(pid, pc, hev, pol, ipol)
            elif op == "wait":
                _, k, pol, ipol = ins
                hev = self._ref_event(k)
                if hev is None:
                    continue
                yield from self._wait(pid, pc, hev, pol, ipol)
            elif op == "join":
                _, j, pol, ipol = ins
                T = self._ref_proc(j, pid, False)
                if T is None:
                    continue
                yield from self._wait(pid, pc, T.hev, pol, ipol)
            elif op == "succeed":
                _, k, v = ins
                hev = self._ref_event(k)
                if hev is None:
                    continue
                self._trigger(pid, pc, hev, ("ok", rv(v)))
            elif op == "fail":
                _, k, spec = ins
                hev = self._ref_event(k)
                if hev is None:
                    continue
                self._trigger(pid, pc, hev, ("exc", spec[0], list(spec[1])))
            elif op == "cb":
                _, k, defuse = ins
                hev = self._ref_event(k)
                if hev is None:
                    continue
                self._add_cb(pid, pc, hev, defuse)
            elif op == "cbintr":
                _, k, j, cause = ins
                hev = self._ref_event(k)
                if hev is None:
                    continue
                T = self._ref_proc(j, pid, True)
                self._add_cb(pid, pc, hev, False, intr=(T, rv(cause)))
            elif op == "chain":
                # a private event D chained to a shared one (src.callbacks.append(D.trigger)): D takes over src's outcome when
                # src is processed and is an event in its own right from then on (own waiters, own unhandled-failure rule)
                _, k, wait, pol, ipol = ins
                src = self._ref_event(k)
                if src is None:
                    continue
                D = env.event()
                hevD = self._reg(D, f"D{pid}.{pc}", "E")
                if src.ev.processed:
                    hevD.expect = ev_outcome(src.ev)
                    D.trigger(src.ev)
                else:
                    self._add_cb(pid, pc, src, False, chain=hevD)
                h.bump("chain")
                if wait:
                    yield from self._wait(pid, pc, hevD, pol, ipol)
            elif op == "cbjoin":
                _, j, defuse = ins
                T = self._ref_proc(j, pid, True)
                self._add_cb(pid, pc, T.hev, defuse)
            elif op == "spawn":
                _, b = ins
                self.spawn(b, pid)
            elif op == "interrupt":
                _, j, cause = ins
                T = self._ref_proc(j, pid, True)
                self._interrupt(pid, pc, T, rv(cause))
            elif op == "neg_timeout":
                _, d = ins
                n_before = len(h.occs)
                try:
                    env.timeout(d)
                except ValueError:
                    self.log(pid, pc, "neg_timeout", "ValueError")
                except BaseException as e:
                    if isinstance(e, WatchdogTrip):
                        raise
                    h.flag("C01.negative_delay", f"timeout({d}) raised {type(e).__name__}", "C01.negative_delay/wrongexc")
                else:
                    h.flag("C01.negative_delay", f"timeout({d}) was accepted", "C01.negative_delay/accepted")
                if len(h.occs) != n_before and not h.problems:
                    h.flag("C01.negative_delay", f"timeout({d}) refused but scheduled something", "C01.negative_delay/scheduled")
                h.bump("neg_timeout")
            elif op == "burn":
                _, w = ins
                if self.clock is not None:
                    self.clock.burn(w)
                self.log(pid, pc, "burn", w)
            elif op == "wait_cond":
                _, tree, pol, ipol = ins
                hev = self._build_cond(pid, pc, tree)
                if hev is None:
                    continue
                yield from self._wait(pid, pc, hev, pol, ipol)
            elif op == "return":
                result = rv(ins[1])
                break
            elif op == "raise":
                raise mkexc(ins[1])
            else:
                raise HarnessError(f"unknown instruction {ins}")
        return result

    # ---------------------------------------------------------------- instructions
    def _trigger(self, pid, pc, hev, outcome):
        h = self.h
        ev = hev.ev
        already = hev.expect is not None
        try:
            if outcome[0] == "ok":
                ev.succeed(outcome[1])
            else:
                ev.fail(mkexc((outcome[1], outcome[2])))
        except RuntimeError:
            if not already:
                h.flag("C02.trigger_once", f"first trigger of {hev.name} raised RuntimeError", "C02.trigger_once/first")
            self.log(pid, pc, "trigger-refused", hev.name)
            h.bump("double_trigger")
        except BaseException as e:
            if isinstance(e, WatchdogTrip):
                raise
            h.flag("C02.trigger_once", f"trigger of {hev.name} raised {type(e).__name__}: {e}", "C02.trigger_once/wrongexc")
        else:
            if already:
                h.flag("C02.trigger_once", f"second trigger of {hev.name} accepted", "C02.trigger_once/accepted")
            else:
                hev.expect = outcome
                self.log(pid, pc, "trigger", (hev.name, outcome))
        # whatever happened, the event keeps its first outcome
        if hev.expect is not None:
            got = ev_outcome(ev)
            if got != hev.expect:
                h.flag("C02.trigger_once", f"{hev.name} outcome changed to {got}, first was {hev.expect}",
                       "C02.trigger_once/changed")

    def _add_cb(self, pid, pc, hev, defuse, intr=None, chain=None):
        if hev.ev.processed:
            if hev.processed_step is None:
                self.h.flag("C02.harness", f"{hev.name} processed but harness saw no probe", "harness/processed")
            return
        cid = self.cbs
        self.cbs += 1
        reg = ("cb", cid, bool(defuse))
        hev.W.append(reg)
        interp = self

        def cb(ev, hev=hev, reg=reg):
            h = interp.h
            hev.delivered.append(reg)
            if h.cur_occ is None or h.cur_occ.event is not ev:
                h.flag("C02.callback_step", f"callback on {hev.name} invoked outside its processing step", "C02.callback_step")
            got = ev_outcome(ev)
            if got != hev.expect:
                h.flag("C02.value", f"callback on {hev.name} saw {got}, expected {hev.expect}", "C02.value/cb")
            if reg[2] and not ev._ok:
                ev.defused = True
            interp.log(None, None, "cb", (cid, hev.name, got))
            if chain is not None:
                chain.expect = got
                if not ev._ok and ev.defused:
                    interp.h.bump("chain_from_handled_failure")
                chain.ev.trigger(ev)
            if intr is not None:
                # a plain callback may interrupt any live process: no process is active while callbacks run
                interp.h.bump("intr_from_callback")
                interp._interrupt(None, None, intr[0], intr[1], cbkey=("cb", cid))

        hev.ev.callbacks.append(cb)
        self.h.bump("cb")

    def _interrupt(self, pid, pc, T, cause, cbkey=None):
        """pid None: issued by a harness callback (cbkey identifies it); nobody is the active process then"""
        h = self.h
        should_refuse = (not T.alive) or T.pid == pid
        n_before = len(h.occs)
        if pid is None:
            key = cbkey
        else:
            P = self.procs[pid]
            P.n_intr_instr += 1
            key = (pid, pc, P.n_intr_instr)
        if key in self.skip:
            return
        try:
            T.process.interrupt(cause)
        except RuntimeError:
            if not should_refuse:
                h.flag("C04.refuse", f"interrupt of live P{T.pid} by {'a callback' if pid is None else 'P%d' % pid} raised RuntimeError",
                       "C04.refuse/live")
            if len(h.occs) != n_before:
                h.flag("C04.refuse", "refused interrupt still scheduled something", "C04.refuse/effect")
            self.log(pid, pc, "interrupt-refused", T.pid)
            self.refused.add(key)
            h.bump("intr_refused_self" if T.pid == pid else "intr_refused_dead")
        except BaseException as e:
            if isinstance(e, WatchdogTrip):
                raise
            h.flag("C04.refuse", f"interrupt raised {type(e).__name__}: {e}", "C04.refuse/wrongexc")
        else:
            if should_refuse:
                h.flag("C04.refuse", f"interrupt of {'self' if T.pid == pid else 'finished'} P{T.pid} accepted",
                       "C04.refuse/accepted-" + ("self" if T.pid == pid else "dead"))
                return
            occ = h.last_occ
            if occ is None or occ.kind != "intr" or len(h.occs) != n_before + 1:
                raise Violation("C04.delivery", f"interrupt() of live P{T.pid} did not put exactly one interruption on the agenda "
                                                f"({len(h.occs) - n_before} new occurrences; delivered on the spot or lost?)",
                                "C04.delivery/not-scheduled")
            occ.victim = T.pid
            occ.cause = cause
            occ.issuer = pid
            occ.n_norm_at_issue = h.n_norm_processed
            T.intr_fifo.append(occ)
            self.log(pid, pc, "interrupt", (T.pid, cause))
            h.bump("intr_issued")
            if not T.started:
                h.bump("intr_before_start")
            if T.waiting is not None and T.waiting.occ is not None and T.waiting.occ.proc_step is None \
                    and T.waiting.occ.due == self.env.now:
                h.bump("intr_at_target_instant")
            if len(T.intr_fifo) >= 2:
                h.bump("intr_multi_pending")

    def _wait(self, pid, pc, hev, pol, ipol):
        """yield hev.ev with bookkeeping; returns value or applies handler policies"""
        env = self.env
        h = self.h
        P = self.procs[pid]
        rewaits = 0
        while True:
            immediate = hev.processed_step is not None
            reg = None
            if not immediate:
                reg = ("proc", pid, P.nreg)
                P.nreg += 1
                hev.W.append(reg)
            else:
                h.bump("yield_processed")
            P.waiting = hev
            P.wait_reg = reg
            P.wait_step = h.step_no
            P.wait_immediate = immediate
            self.log(pid, pc, "yield", hev.name)
            exc = None
            interrupted = False
            try:
                v = yield hev.ev
            except (GeneratorExit, WatchdogTrip):
                raise
            except BaseException as e:
                exc = e
                occ = h.cur_occ
                if isinstance(e, Interrupt) and occ is not None and occ.kind == "intr" and occ.victim == pid \
                        and not occ.delivered:
                    interrupted = True
            P.waiting = None
            if interrupted:
                self._delivered(pid, pc, hev, reg, exc)
                act = ipol
            else:
                outcome = ("ok", v) if exc is None else exc_out(exc)
                self._resumed(pid, pc, hev, reg, immediate, outcome)
                if exc is None:
                    if hev.kind == "C" and self.on_cond is not None:
                        self.on_cond(self, pid, pc, hev, v)
                    return v
                act = pol
            if act == "continue":
                return None
            if act == "rewait":
                rewaits += 1
                if rewaits > 2:
                    return None
                h.bump("rewait")
                continue
            if isinstance(act, list) and act[0] == "other":
                t0 = env.now
                ev = env.timeout(act[1], None)
                hev = self._reg(ev, f"T{pid}.{pc}.o{P.nreg}", "T")
                hev.expect = ("ok", None)
                pol, ipol = "continue", "continue"
                h.bump("wait_other")
                continue
            if act == "terminate":
                raise _Terminate(("term", pid, pc))
            if act == "raise":
                raise HErr("handler", pid, pc)
            if act == "propagate":
                raise exc
            raise HarnessError(f"unknown policy {act}")

    def _delivered(self, pid, pc, hev, reg, exc):
        """a genuine Interrupt arrived at P's current yield"""
        h = self.h
        P = self.procs[pid]
        occ = h.cur_occ
        occ.delivered = True
        P.interrupted_count += 1
        if not P.intr_fifo or P.intr_fifo[0] is not occ:
            h.flag("C04.order", f"P{pid} received interrupt #{occ.seq} but the oldest outstanding is "
                                f"#{P.intr_fifo[0].seq if P.intr_fifo else None}", "C04.order")
            if occ in P.intr_fifo:
                P.intr_fifo.remove(occ)
        else:
            P.intr_fifo.pop(0)
        if exc.cause != occ.cause or exc.args != (occ.cause,):
            h.flag("C04.cause", f"P{pid} received cause {exc.cause!r}, issued {occ.cause!r}", "C04.cause")
        if self.env.now != occ.trig_now:
            h.flag("C04.same_time", f"interrupt issued at {occ.trig_now} delivered at {self.env.now}", "C04.same_time")
        if h.n_norm_processed != occ.n_norm_at_issue:
            h.flag("C04.urgent", f"{h.n_norm_processed - occ.n_norm_at_issue} ordinary occurrence(s) took effect "
                                 f"between issuing and delivering interrupt #{occ.seq}", "C04.urgent")
        # the victim no longer waits on hev
        if reg is not None:
            if reg in hev.W:
                hev.W.remove(reg)
                hev.abandoned.append(pid)
            elif hev.snapshot is not None and reg in hev.snapshot and reg not in hev.delivered:
                # target is being processed in this very step?? impossible: this step is the interruption's
                h.flag("C04.harness", "interrupt delivered during target's step", "harness/intr-in-target-step")
        self.log(pid, pc, "interrupted", occ.cause)
        h.bump("intr_delivered")
        if hev.processed_step is None and hev.occ is not None and hev.occ.due == self.env.now:
            h.bump("intr_delivered_target_due_now")

    def _resumed(self, pid, pc, hev, reg, immediate, outcome):
        h = self.h
        P = self.procs[pid]
        occ = h.cur_occ
        if immediate:
            if h.step_no != P.wait_step:
                h.flag("C02.processed_continue", f"P{pid} yielded processed {hev.name} at step {P.wait_step}, "
                                                 f"continued at step {h.step_no}", "C02.processed_continue")
        else:
            if occ is None or occ.event is not hev.ev:
                what = f"#{occ.seq} {occ.kind}" if occ else "nothing"
                h.flag("C04.stale_resume" if P.interrupted_count else "C02.resume_source",
                       f"P{pid} waits on {hev.name} but was resumed in the step of {what}",
                       "C04.stale_resume" if P.interrupted_count else "C02.resume_source")
            else:
                hev.delivered.append(reg)
                snap = hev.snapshot or []
                if reg not in snap:
                    h.flag("C02.all_waiters_once_in_order", f"P{pid} invoked by {hev.name} without being registered",
                           "C02.all_waiters_once_in_order/unregistered")
        if hev.kind == "C":
            dec = eval_cond(hev)
            if dec is None:
                h.flag("C05.early", f"P{pid} resumed by {hev.name} whose predicate does not hold yet", "C05.early")
                hev.expect = outcome
            else:
                hev.decision = dec
                if dec[2][0] == "ok":
                    hev.expect = outcome if outcome[0] == "ok" else ("ok", "<ConditionValue>")
                else:
                    hev.expect = dec[2]
                if self.env.now != dec[1]:
                    h.flag("C05.instant", f"{hev.name} decided at t={dec[1]!r} but waiter resumed at t={self.env.now!r}",
                           "C05.instant")
        if outcome != hev.expect:
            h.flag("C02.value", f"P{pid} at pc {pc} received {outcome} from {hev.name}, expected {hev.expect}",
                   "C02.value/" + ("exc" if outcome[0] == "exc" or (hev.expect or ("",))[0] == "exc" else "ok"))
        if outcome[0] == "ok" and isinstance(outcome[1], ConditionValue):
            names = [(h.hevs[id(e)].name if id(e) in h.hevs else "?") for e in outcome[1].keys()]
            outcome = ("ok", ["<ConditionValue>", names])
        self.log(pid, pc, "resume", (hev.name, outcome))

    # ---------------------------------------------------------------- conditions
    def _build_cond(self, pid, pc, tree):
        """tree: ["all"|"any", [sub...]] | ["and"|"or", a, b] | ["ev",k] | ["to",d,v] | ["proc",j]"""
        used = set()
        h = self.h

        def build(t):
            op = t[0]
            if op == "ev":
                hev = self._ref_event(t[1])
                if hev is None:
                    return None
                if id(hev) in used:
                    h.bump("duplicate_operand")      # the same event may be an operand more than once
                used.add(id(hev))
                return hev
            if op == "proc":
                T = self._ref_proc(t[1], pid, False)
                if T is None:
                    return None
                if id(T.hev) in used:
                    h.bump("duplicate_operand")
                used.add(id(T.hev))
                return T.hev
            if op == "to":
                ev = self.env.timeout(t[1], rv(t[2]))
                hev = self._reg(ev, f"T{pid}.{pc}.c{len(used)}", "T")
                hev.expect = ("ok", rv(t[2]))
                used.add(id(hev))
                return hev
            if op in ("all", "any"):
                kids = [k for k in (build(s) for s in t[1]) if k is not None]
                mode = op
            elif op in ("and", "or"):
                kids = [k for k in (build(s) for s in t[1:3]) if k is not None]
                mode = "all" if op == "and" else "any"
                if len(kids) != 2:
                    return kids[0] if kids else None
            else:
                raise HarnessError(f"bad tree {t}")
            evs = [k.ev for k in kids]
            pre = [k.processed_step is not None for k in kids]
            # operands may be handed over as any iterable: list, tuple, generator expression, iterator (also when empty)
            shape = (len(evs) + 2 * pc + pid) % 4
            arg = [list(evs), tuple(evs), (e for e in evs), iter(evs)][shape]
            if shape >= 2:
                h.bump("operands given as a lazy iterable")
                if not evs:
                    h.bump("empty lazy iterable of operands")
            if op == "all":
                ev = self.env.all_of(arg)
            elif op == "any":
                ev = self.env.any_of(arg)
            elif op == "and":
                ev = evs[0] & evs[1]
            else:
                ev = evs[0] | evs[1]
            if shape == 0 and op in ("all", "any") and evs:
                # the caller goes on using its own list: the condition's operands are those it was built from
                how = (len(evs) + pc + 3 * pid) % 3
                if how == 1:
                    arg.clear()
                elif how == 2:
                    arg.reverse()
                    arg.append(arg[0])
                if how:
                    h.bump("caller's operand list changed after construction")
            hev = self._reg(ev, f"C{pid}.{pc}.{len(used)}", "C")
            used.add(id(hev))
            hev.tree = (mode, kids, pre)
            hev.build_step = h.step_no
            hev.build_now = self.env.now
            for k, was in zip(kids, pre):
                k.parent = hev
                if not was:
                    k.cond_regs.append(hev)
            return hev

        return build(tree)


def eval_cond(hev):
    """Reference evaluation of a condition from the harness's records of when its operands were processed.
    Returns (decided_step, decided_now, outcome) or None while undecided. outcome = ('ok',) | ('exc', name, args)."""
    mode, kids, pre = hev.tree
    if not kids:
        return (hev.build_step, hev.build_now, ("ok",))
    checks = []
    for i, (k, was) in enumerate(zip(kids, pre)):
        if was:
            out = node_outcome(k)
            checks.append(((hev.build_step, 0, i), hev.build_now, out))
        elif k.processed_step is not None:
            out = node_outcome(k)
            checks.append(((k.processed_step, 1, i), k.processed_now, out))
    checks.sort(key=lambda c: c[0])
    count = 0
    for key, now, out in checks:
        count += 1
        if out is None:
            k = kids[key[2]]
            if k.kind == "C":
                raise Violation("C05.early", f"{k.name} was processed although its predicate does not hold", "C05.early/nested")
            raise Violation("C05.value", f"operand {k.name} counts as processed but carries no outcome", "C05.value/no-outcome")
        if out[0] == "exc":
            return (key[0], now, out)
        if (mode == "all" and count == len(kids)) or (mode == "any" and count > 0):
            return (key[0], now, ("ok",))
    return None


def node_outcome(k):
    if k.kind == "C":
        d = eval_cond(k)
        return None if d is None else d[2]
    e = k.expect
    if e is None:
        return None
    return ("ok",) if e[0] == "ok" else e


def cond_leaves(hev):
    mode, kids, pre = hev.tree
    out = []
    for k in kids:
        if k.kind == "C" and k.tree is not None:
            out.extend(cond_leaves(k))
        else:
            out.append(k)
    return out


# -------------------------------------------------------------------------------------- drivers

def predicted_unhandled(occ):
    """C02(f): a failed occurrence with no waiting process, no defusing callback, no pending condition"""
    hev = occ.hev
    ev = occ.event
    if occ.kind == "intr":
        return False
    if ev._ok:
        return False
    if hev is None:
        return None     # unknown to the harness
    for reg in hev.snapshot or []:
        if reg[0] == "proc":
            return False
        if reg[0] == "cb" and reg[2]:
            return False
    for c in hev.cond_regs:
        # a condition still undecided when the operand is processed takes the failure over; a condition
        # triggered during this operand's own step was triggered by this very failure
        if (c.occ is None or c.occ.trig_step >= occ.proc_step) and not detached(c, occ.proc_step):
            return False
    return True


def detached(c, step):
    """an enclosing condition processed before `step` has removed c's check callbacks from c's operands"""
    a = c.parent
    while a is not None:
        if a.processed_step is not None and a.processed_step < step:
            return True
        a = a.parent
    return False


class RunResult:
    def __init__(self):
        self.ended = None       # 'exhausted' | ('raised', typename, args) | 'stopped'
        self.h = None
        self.interp = None
        self.returns = []


def check_problems(h):
    if h.fatal is not None:
        raise h.fatal
    if h.problems:
        raise h.problems[0]


def end_checks(interp, exhausted):
    """clauses judged once the agenda is empty"""
    h = interp.h
    for P in interp.procs:
        if P.process.is_alive != P.alive:
            h.flag("C02.termination", f"P{P.pid}: is_alive={P.process.is_alive} but body "
                                      f"{'still running' if P.alive else 'has ended'}", "C02.termination")
        if not P.alive:
            pv = P.process
            got = ev_outcome(pv)
            if got != P.hev.expect:
                h.flag("C02.termination", f"P{P.pid} value {got}, body ended with {P.hev.expect}", "C02.termination/value")
        if P.alive and exhausted and P.waiting is not None and P.waiting.processed_step is not None:
            h.flag("C02.lost_waiter", f"P{P.pid} still waits on {P.waiting.name}, processed at step "
                                      f"{P.waiting.processed_step}", "C02.lost_waiter")
        if P.alive and exhausted and P.waiting is not None and P.waiting.kind == "C" and P.waiting.tree is not None \
                and P.waiting.processed_step is None:
            dec = eval_cond(P.waiting)
            if dec is not None and not detached(P.waiting, dec[0]):
                h.flag("C05.late", f"P{P.pid} still waits on {P.waiting.name} although its predicate was decided at t={dec[1]}",
                       "C05.late/waiter")
        if P.alive and P.intr_fifo and exhausted:
            left = [o for o in P.intr_fifo if o.proc_step is not None]
            if left:
                h.flag("C04.delivery", f"live P{P.pid} has undelivered processed interrupts", "C04.delivery/undelivered")
    if exhausted:
        left = [o for o in h.occs if o.proc_step is None and not o.optional]
        if left:
            o = left[0]
            h.flag("C01.skipped", f"agenda empty but occurrence #{o.seq} {o.kind} due {o.due} never took effect",
                   "C01.skipped")
    check_problems(h)


def drive_exhaust(env, interp, budget=STEP_BUDGET):
    """the harness's own stepping loop; returns 'exhausted' or ('raised', typename, args)"""
    h = env.h
    n = 0
    while True:
        if env.peek() == inf and not getattr(env, "_queue", None):      # an occurrence due at infinity is still an occurrence
            return "exhausted"
        n += 1
        if n > budget:
            raise Inconclusive("step budget")
        try:
            env.step()
        except (HarnessError, WatchdogTrip, Inconclusive):
            raise
        except Violation:
            check_problems(h)
            raise
        except BaseException as e:
            return _judge_raise(env, interp, e)
        check_problems(h)
        occ = h.cur_occ
        if occ is not None and predicted_unhandled(occ) is True:
            raise Violation("C02.failure_lost",
                            f"{occ.hev.name if occ.hev else occ.kind} failed with {exc_out(occ.event._value)} at now={env.now}, "
                            f"nobody handled it, and step() did not raise", "C02.failure_lost")


def _judge_raise(env, interp, e):
    """step()/run() raised e: legitimate only as the unhandled failure of the occurrence just processed"""
    h = env.h
    check_problems(h)
    occ = h.cur_occ
    if occ is None or occ.proc_step != h.step_no:
        raise crash("C02.spurious_raise", e)
    pu = predicted_unhandled(occ)
    if pu is not True:
        if pu is None:
            raise crash("C02.spurious_raise", e)
        raise Violation("C02.spurious_raise",
                        f"step() raised {type(e).__name__}({e}) although the failure of "
                        f"{occ.hev.name if occ.hev else occ.kind} was handled", "C02.spurious_raise")
    want = exc_out(occ.event._value)
    got = exc_out(e)
    if want != got:
        raise Violation("C02.raise_value", f"step() raised {got}, the unhandled failure was {want}", "C02.raise_value")
    if env.now != occ.due:
        raise Violation("C02.raise_instant", f"raised at {env.now}, failure due {occ.due}", "C02.raise_instant")
    return ("raised", got[1], got[2])


def run_program(program, on_cond=None, env_cls=None, env_kwargs=None, clock=None, skip=None):
    """build env + interpreter, run to exhaustion with the harness loop; returns RunResult"""
    env_cls = env_cls or TracingEnvironment
    kw = dict(env_kwargs or {})
    kw.setdefault("initial_time", program.get("init", 0))
    env = env_cls(**kw)
    interp = Interp(program, env, clock=clock, on_cond=on_cond, skip=skip)
    res = RunResult()
    res.h = env.h
    res.interp = interp
    res.env = env
    try:
        res.ended = drive_exhaust(env, interp)
    except (Violation, HarnessError, WatchdogTrip, Inconclusive):
        interp.finished = True
        raise
    end_checks(interp, res.ended == "exhausted")
    interp.finished = True
    return res


def trace_of(res):
    """observable trace for metamorphic comparisons: the log plus final public state"""
    h = res.h
    out = []
    for e in h.log:
        out.append(list(e))
    final = []
    for P in res.interp.procs:
        pv = P.process
        if pv.triggered:
            final.append((P.pid, ev_outcome(pv)))
        else:
            final.append((P.pid, "alive"))
    return out, final
