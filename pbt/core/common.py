"""Shared plumbing: Violation, watchdog, canonical JSON, quiet stdout, crash signatures."""
import contextlib
import hashlib
import json
import os
import signal
import sys
import traceback
from fractions import Fraction

REPO = os.path.realpath(os.environ.get("ONL_REPO", "/repo"))
VERIF = os.path.realpath(os.path.join(os.path.dirname(__file__), "..", ".."))


class Violation(Exception):
    """An oracle clause of a listed property failed on real code."""

    def __init__(self, clause, detail="", signature=None):
        super().__init__(f"{clause}: {detail}")
        self.clause = clause
        self.detail = detail
        self.signature = signature or clause


class Inconclusive(Exception):
    """Case could not be judged (step budget etc.). Never a violation."""


class HarnessError(Exception):
    """The harness itself is wrong (exit 2)."""


class WatchdogTrip(BaseException):
    """CPU watchdog fired inside a case."""


class _Watchdog:
    def __init__(self):
        self.tripped = False
        self.armed = False

    def _handler(self, signum, frame):
        if self.armed:
            self.tripped = True
            raise WatchdogTrip()

    def install(self):
        signal.signal(signal.SIGVTALRM, self._handler)

    @contextlib.contextmanager
    def guard(self, seconds):
        self.tripped = False
        self.armed = True
        signal.setitimer(signal.ITIMER_VIRTUAL, seconds, 1.0)
        try:
            yield self
        finally:
            self.armed = False
            signal.setitimer(signal.ITIMER_VIRTUAL, 0)


WATCHDOG = _Watchdog()
WATCHDOG_SECONDS = float(os.environ.get("VERIF_WATCHDOG_S", "10"))


class _Null:
    def write(self, s):
        return len(s)

    def flush(self):
        pass

    def isatty(self):
        return False


_NULL = _Null()


@contextlib.contextmanager
def quiet():
    """Code under test prints (SP.run prints every packet; FIBDemux prints misses)."""
    old = sys.stdout
    sys.stdout = _NULL
    try:
        yield
    finally:
        sys.stdout = old


def jdefault(o):
    if isinstance(o, Fraction):
        return {"$frac": [o.numerator, o.denominator]}
    if isinstance(o, (set, frozenset)):
        return sorted(o, key=repr)
    if isinstance(o, tuple):
        return list(o)
    if isinstance(o, float) and o != o:
        return "nan"
    return repr(o)


def canon(case):
    return json.dumps(case, sort_keys=True, default=jdefault, separators=(",", ":"))


def case_hash(case):
    return hashlib.sha256(canon(case).encode()).hexdigest()[:16]


def onl_frame(exc):
    """innermost frame of the traceback that lies in the tree under test"""
    tb = exc.__traceback__
    best = None
    seen = set()
    e = exc
    while e is not None and id(e) not in seen:
        seen.add(id(e))
        for fs in traceback.extract_tb(e.__traceback__):
            fn = os.path.realpath(fs.filename)
            if fn.startswith(REPO + os.sep) and os.sep + "onl" + os.sep in fn:
                best = f"{os.path.relpath(fn, REPO)}:{fs.name}"
        e = e.__cause__ or e.__context__
    return best or "?"


def crash(clause, exc, extra=""):
    """Turn an exception escaping code under test into a Violation with a root-cause signature."""
    where = onl_frame(exc)
    if where == "?":
        # No frame of the tree under test is involved: the harness tripped over something the code under test handed it (a value
        # of another type, a missing attribute). On the reference tree this never happens (multi-seed sweeps), so it is reported
        # as changed behaviour under the clause being judged - like runner.execute does - rather than as exit 2.
        fs = traceback.extract_tb(exc.__traceback__)
        at = f"{os.path.basename(fs[-1].filename)}:{fs[-1].name}" if fs else "?"
        return Violation(clause, f"{type(exc).__name__}({exc}) while judging {clause} {extra} (harness frame {at})".strip(),
                         f"{clause}/unexpected/{type(exc).__name__}@{at}")
    sig = f"{clause}/crash/{type(exc).__name__}@{where}"
    return Violation(clause, f"{type(exc).__name__}({exc}) at {where} {extra}".strip(), sig)


def assert_tree():
    import onl

    f = os.path.realpath(onl.__file__)
    if not f.startswith(REPO + os.sep):
        raise HarnessError(f"onl imported from {f}, expected under {REPO}")


GRID = [0, 1, 2, 3, 0.5, 0.25, 1.5, 0.1, 0.2, 0.3, 0.7]
"""coincidence grid for delays (DESIGN 3.2)"""
