"""Runner: tiers, seeding, sharding, collect-then-shrink, evidence, replay, known findings.

usage:  python -m pbt.runner <ID> <quick|thorough>
        python -m pbt.runner --replay <file>
        python -m pbt.runner <ID> --shard <i> --tier <tier> --out <file>     (internal)
exit 0 held / 1 VIOLATION / 2 harness error or inconclusive
"""
import gc
import importlib
import json
import os
import subprocess
import sys
import time
import traceback
from collections import Counter

from hypothesis import HealthCheck, Phase, given, seed, settings
from hypothesis import strategies as st

from .core import common
from .core.common import (HarnessError, Inconclusive, Violation, WATCHDOG, WatchdogTrip,
                          case_hash, canon, quiet)

VERIF = common.VERIF
PROP_MODULES = {
    f"C{n:02d}": f"pbt.props.c{n:02d}" for n in range(1, 21)
}
MAX_ROOT_CAUSES = 6
SHARDS = int(os.environ.get("VERIF_SHARDS", "16"))


class _AbortShrink(BaseException):
    pass


class Facet:
    def __init__(self, name, strategy, run, quick=500, thorough=5000, essential=(), exhaustive=None,
                 shrink_s=30.0, group=None):
        self.name = name
        self.strategy = strategy      # callable(tier) -> hypothesis strategy of JSON-able cases
        self.run = run                # callable(case) -> {"nontrivial": bool, "classes": [...]} ; raises Violation
        self.quick = quick
        self.thorough = thorough      # examples per shard
        self.essential = tuple(essential)
        self.exhaustive = exhaustive  # optional callable(tier, shard, nshards) -> iterable of cases
        self.shrink_s = shrink_s
        self.group = group or name


class Property:
    def __init__(self, pid, rule, facets, assumptions=(), extra=None):
        self.pid = pid
        self.rule = rule
        self.facets = facets
        self.assumptions = list(assumptions)
        self.extra = extra            # optional callable(tier, seed) -> dict merged into coverage (e.g. subprocess batches)


def load_property(pid):
    mod = importlib.import_module(PROP_MODULES[pid])
    return mod.PROP


def execute(facet, case, _second=False):
    """run one case under watchdog + quiet stdout; returns info dict; raises Violation/Inconclusive"""
    t0 = time.process_time()
    # the watchdog counts the CPU time of the case, not of a full garbage collection of this long-lived shard process that
    # happens to start inside it (seconds in thorough runs on a loaded machine): collections wait until the case is over
    gc_was = gc.isenabled()
    gc.disable()
    try:
        with quiet(), WATCHDOG.guard(common.WATCHDOG_SECONDS):
            info = facet.run(case)
    except (Violation, Inconclusive, HarnessError, _AbortShrink):
        raise
    except Exception as e:
        # The harness could not interpret what the code under test did (an attribute, type or value it relies on is not what
        # every run on the reference tree produced). On the unchanged tree this never happens (multi-seed sweeps); it is
        # reported as a violation of the property's "behaves as specified / never raises" clauses rather than swallowed.
        tb = traceback.extract_tb(e.__traceback__)
        where = next((f"{os.path.basename(f.filename)}:{f.name}" for f in reversed(tb)), "?")
        raise Violation("unexpected_behaviour", f"{type(e).__name__}({e}) while judging the case (innermost frame {where})",
                        f"unexpected/{type(e).__name__}@{where}")
    except WatchdogTrip:
        if not _second:
            # a spin is deterministic and trips again; a pause of the interpreter or the machine does not
            if gc_was:
                gc.enable()
            gc.collect()
            return execute(facet, case, _second=True)
        raise Violation("nontermination", "CPU watchdog: an element spun >= %gs inside one case without "
                        "finishing, twice (simulation can never run out of events)" % common.WATCHDOG_SECONDS,
                        "nontermination/watchdog")
    finally:
        tripped = WATCHDOG.tripped
        if gc_was:
            gc.enable()
    if tripped:
        if not _second:
            gc.collect()
            return execute(facet, case, _second=True)
        raise Violation("nontermination", "CPU watchdog tripped (swallowed inside the code under test), twice",
                        "nontermination/watchdog")
    info = info or {}
    info["cpu"] = time.process_time() - t0
    if info["cpu"] > 1.0 and os.environ.get("VERIF_SLOWLOG"):
        with open(os.environ["VERIF_SLOWLOG"], "a") as f:
            f.write(json.dumps({"facet": facet.name, "cpu": info["cpu"], "case": case}, default=common.jdefault) + "\n")
    return info


class FacetStats:
    def __init__(self, name):
        self.name = name
        self.evaluations = 0
        self.nontrivial = 0
        self.nt_hashes = set()
        self.classes = Counter()
        self.muted = Counter()
        self.inconclusive = 0
        self.samples = []
        self.max_cpu = 0.0
        self.violations = []          # list of dicts
        self.exhaustive = False
        self.budget_exhausted = False

    def record(self, case, info):
        self.evaluations += 1
        for c in info.get("classes", ()):
            self.classes[c] += 1
        self.max_cpu = max(self.max_cpu, info.get("cpu", 0.0))
        if info.get("nontrivial"):
            self.nontrivial += 1
            self.nt_hashes.add(case_hash(case))
            if len(self.samples) < 2:
                self.samples.append(case)

    def to_json(self):
        return {
            "name": self.name, "evaluations": self.evaluations, "nontrivial": self.nontrivial,
            "nt_hashes": sorted(self.nt_hashes), "classes": dict(self.classes),
            "muted": dict(self.muted), "inconclusive": self.inconclusive, "samples": self.samples,
            "max_cpu": self.max_cpu, "violations": self.violations, "exhaustive": self.exhaustive,
            "budget_exhausted": self.budget_exhausted,
        }


def run_facet(prop, facet, tier, seed_value, muted, deadline, shard=0, nshards=1):
    stats = FacetStats(facet.name)
    muted = set(muted)
    n_examples = facet.quick if tier == "quick" else facet.thorough
    scale = float(os.environ.get("VERIF_SCALE", "1"))
    n_examples = max(1, int(n_examples * scale))

    def judge(case, state):
        try:
            info = execute(facet, case)
        except Inconclusive:
            stats.evaluations += 1
            stats.inconclusive += 1
            return
        except Violation as v:
            if v.signature in muted:
                stats.evaluations += 1
                stats.muted[v.signature] += 1
                return
            size = len(canon(case))
            if state.get("best") is None or size < state["best"][0]:
                state["best"] = (size, case, v)
            if state.get("t_fail") is None:
                state["t_fail"] = time.time()
            elif time.time() - state["t_fail"] > facet.shrink_s:
                raise _AbortShrink()
            raise
        stats.record(case, info)

    # bounded-exhaustive part
    if facet.exhaustive is not None:
        state = {}
        complete = True
        for case in facet.exhaustive(tier, shard, nshards):
            if time.time() > deadline:
                stats.budget_exhausted = True
                complete = False
                break
            try:
                judge(case, state)
            except Violation as v:
                stats.violations.append({"facet": facet.name, "clause": v.clause, "signature": v.signature,
                                         "detail": v.detail, "case": case, "seed": seed_value, "shrunk": False})
                muted.add(v.signature)
                state = {}
                if len(stats.violations) >= MAX_ROOT_CAUSES:
                    complete = False
                    break
        stats.exhaustive = complete

    if facet.strategy is None:
        return stats

    for attempt in range(MAX_ROOT_CAUSES):
        state = {}
        if time.time() > deadline:
            stats.budget_exhausted = True
            break

        def body(case):
            if time.time() > deadline and state.get("best") is None:
                stats.budget_exhausted = True
                raise _AbortShrink()
            if state.get("t_fail") is not None and time.time() - state["t_fail"] > facet.shrink_s:
                raise _AbortShrink()
            judge(case, state)

        test = given(facet.strategy(tier))(body)
        test = settings(
            max_examples=n_examples, database=None, deadline=None, derandomize=False,
            report_multiple_bugs=False, print_blob=False,
            suppress_health_check=list(HealthCheck),
            phases=[Phase.generate, Phase.shrink],
        )(test)
        test = seed(seed_value * 7919 + attempt)(test)
        try:
            test()
        except _AbortShrink:
            pass
        except Violation:
            pass
        except Exception as e:      # hypothesis Flaky etc. or harness bug
            if state.get("best") is None:
                raise
            # a failure was seen and shrinking tripped over flakiness: keep the best failing case
            state["note"] = f"{type(e).__name__}: {e}"
        if state.get("best") is None:
            break
        _, case, v = state["best"]
        stats.violations.append({"facet": facet.name, "clause": v.clause, "signature": v.signature,
                                 "detail": v.detail, "case": case, "seed": seed_value, "shrunk": True,
                                 "note": state.get("note", "")})
        muted.add(v.signature)
        if v.signature.startswith("nontermination"):
            break       # every further hanging case would cost a full watchdog period
    return stats


def run_shard(pid, tier, seed_value, shard, nshards, budget_s):
    common.assert_tree()
    WATCHDOG.install()
    prop = load_property(pid)
    known = load_known(pid)
    deadline = time.time() + budget_s
    only = os.environ.get("VERIF_FACETS")
    out = []
    for fi, facet in enumerate(prop.facets):
        if only and facet.name not in only.split(","):
            continue
        muted = [k["signature"] for k in known if k["status"] == "known" and k.get("facet") in (None, facet.name)]
        s = shard_seed(seed_value, shard) * 31 + fi
        stats = run_facet(prop, facet, tier, s, muted, deadline, shard, nshards)
        out.append(stats.to_json())
    return out


def shard_seed(seed_value, shard):
    return seed_value * 1000 + shard


def load_known(pid=None):
    path = os.path.join(VERIF, "KNOWN_FINDINGS.jsonl")
    out = []
    if os.path.exists(path):
        for line in open(path):
            line = line.strip()
            if not line or line.startswith("#"):
                continue
            d = json.loads(line)
            if pid is None or d.get("property") == pid:
                out.append(d)
    return out


def replay_file(path, quiet_ok=False):
    """returns (ok, message, violation-signature or None)"""
    d = json.load(open(path))
    pid = d["property"]
    prop = load_property(pid)
    facet = next((f for f in prop.facets if f.name == d["facet"]), None)
    if facet is None:
        raise HarnessError(f"{path}: unknown facet {d['facet']}")
    try:
        execute(facet, d["case"])
    except Violation as v:
        return False, f"{v.clause}: {v.detail}", v.signature
    except Inconclusive as e:
        return True, f"inconclusive: {e}", None
    return True, "held", None


def write_replay(pid, viol):
    d = os.path.join(VERIF, "replays")
    os.makedirs(d, exist_ok=True)
    name = f"{pid}-{viol['facet']}-{case_hash(viol['case'])}.json"
    path = os.path.join(d, name)
    with open(path, "w") as f:
        json.dump({"property": pid, "facet": viol["facet"], "clause": viol["clause"],
                   "signature": viol["signature"], "detail": viol["detail"], "seed": viol["seed"],
                   "shrunk": viol.get("shrunk", False), "case": viol["case"]}, f, indent=1,
                  default=common.jdefault)
    return os.path.relpath(path, VERIF)


def run_regressions(pid):
    """replay regressions/<pid>/*.json (expect pass). returns (count, failures[list of (path, msg, sig)])"""
    d = os.path.join(VERIF, "regressions", pid)
    n = 0
    failures = []
    if os.path.isdir(d):
        for fn in sorted(os.listdir(d)):
            if not fn.endswith(".json"):
                continue
            p = os.path.join(d, fn)
            meta = json.load(open(p))
            if meta.get("expect", "pass") != "pass":
                continue
            n += 1
            ok, msg, sig = replay_file(p)
            if not ok:
                failures.append((os.path.relpath(p, VERIF), msg, sig))
    return n, failures


def main(argv):
    if argv and argv[0] == "--replay":
        common.assert_tree()
        WATCHDOG.install()
        path = argv[1]
        ok, msg, sig = replay_file(path)
        d = json.load(open(path))
        if ok:
            print(f"replay {path}: {msg}")
            return 0
        print(f"replay {path}: {msg} [{sig}]")
        print(f"VIOLATION property={d['property']} replay={path}")
        return 1

    pid = argv[0]
    if "--shard" in argv:
        shard = int(argv[argv.index("--shard") + 1])
        tier = argv[argv.index("--tier") + 1]
        out = argv[argv.index("--out") + 1]
        nshards = int(argv[argv.index("--nshards") + 1])
        budget = float(argv[argv.index("--budget") + 1])
        seed_value = int(os.environ.get("VERIF_SEED", "1"))
        try:
            res = {"ok": True, "facets": run_shard(pid, tier, seed_value, shard, nshards, budget)}
        except BaseException as e:
            res = {"ok": False, "error": traceback.format_exc()}
        with open(out, "w") as f:
            json.dump(res, f, default=common.jdefault)
        return 0 if res["ok"] else 2

    tier = argv[1] if len(argv) > 1 else os.environ.get("VERIF_TIER", "quick")
    return run_check(pid, tier)


def run_check(pid, tier):
    t0 = time.time()
    common.assert_tree()
    WATCHDOG.install()
    seed_value = int(os.environ.get("VERIF_SEED", "1"))
    prop = load_property(pid)
    known = load_known(pid)
    status = 0
    lines = []

    # 1. regressions (fixed findings + hand-picked boundary cases): must pass
    n_reg, reg_fail = run_regressions(pid)
    violations = []
    for path, msg, sig in reg_fail:
        lines.append(f"regression {path}: {msg}")
        print(f"VIOLATION property={pid} replay={path}")
        status = 1

    # 2. known findings: witness must still fail with the same signature
    known_active = []
    for k in known:
        if k["status"] != "known":
            continue
        wpath = os.path.join(VERIF, k["witness"])
        ok, msg, sig = replay_file(wpath)
        if not ok and sig == k["signature"]:
            print(f"KNOWN-FINDING: property={pid} {k['what']}")
            known_active.append(k)
        elif not ok:
            path = k["witness"]
            print(f"known-finding witness {path} now fails differently: {msg} [{sig}]")
            print(f"VIOLATION property={pid} replay={path}")
            status = 1
        else:
            print(f"note: known finding no longer reproduces: {k['what']}")

    # 3. generated search
    if tier == "quick":
        nshards = int(os.environ.get("VERIF_QUICK_SHARDS", "1"))
        budget = float(os.environ.get("VERIF_BUDGET_S", "900"))
    else:
        nshards = SHARDS
        budget = float(os.environ.get("VERIF_BUDGET_S", "3000"))
    shard_results = []
    if nshards == 1:
        try:
            shard_results.append(run_shard(pid, tier, seed_value, 0, 1, budget))
        except Exception:
            traceback.print_exc()
            print(f"HARNESS-ERROR property={pid}")
            return 2
    else:
        tmpd = os.path.join(VERIF, ".shards", f"{pid}-{os.getpid()}")
        os.makedirs(tmpd, exist_ok=True)
        procs = []
        for i in range(nshards):
            out = os.path.join(tmpd, f"{i}.json")
            cmd = [sys.executable, "-m", "pbt.runner", pid, "--shard", str(i), "--tier", tier,
                   "--nshards", str(nshards), "--budget", str(budget), "--out", out]
            procs.append((i, out, subprocess.Popen(cmd, cwd=VERIF, stdout=subprocess.DEVNULL)))
        err = False
        for i, out, p in procs:
            try:
                p.wait(timeout=budget + 900)
            except subprocess.TimeoutExpired:
                p.kill()
                print(f"shard {i} killed (hard timeout)")
                err = True
                continue
            try:
                r = json.load(open(out))
            except Exception:
                print(f"shard {i}: no result (exit {p.returncode})")
                err = True
                continue
            if not r["ok"]:
                print(f"shard {i} harness error:\n{r['error']}")
                err = True
                continue
            shard_results.append(r["facets"])
        import shutil
        shutil.rmtree(tmpd, ignore_errors=True)
        if err:
            print(f"HARNESS-ERROR property={pid}")
            return 2

    # merge
    facets = {}
    for sr in shard_results:
        for fj in sr:
            m = facets.setdefault(fj["name"], {"evaluations": 0, "nontrivial": 0, "nt": set(), "classes": Counter(),
                                               "muted": Counter(), "inconclusive": 0, "samples": [], "max_cpu": 0.0,
                                               "violations": [], "exhaustive": True, "budget_exhausted": False})
            m["evaluations"] += fj["evaluations"]
            m["nontrivial"] += fj["nontrivial"]
            m["nt"].update(fj["nt_hashes"])
            m["classes"].update(fj["classes"])
            m["muted"].update(fj["muted"])
            m["inconclusive"] += fj["inconclusive"]
            if len(m["samples"]) < 2:
                m["samples"].extend(fj["samples"][: 2 - len(m["samples"])])
            m["max_cpu"] = max(m["max_cpu"], fj["max_cpu"])
            m["violations"].extend(fj["violations"])
            m["exhaustive"] = m["exhaustive"] and fj["exhaustive"]
            m["budget_exhausted"] = m["budget_exhausted"] or fj["budget_exhausted"]

    seen_sigs = set()
    n_viol = len(reg_fail)
    for name, m in facets.items():
        for v in m["violations"]:
            if v["signature"] in seen_sigs:
                continue
            seen_sigs.add(v["signature"])
            path = write_replay(pid, v)
            print(f"violation [{name}] {v['clause']}: {v['detail'][:400]} [{v['signature']}]")
            print(f"VIOLATION property={pid} replay={path}")
            n_viol += 1
            status = 1

    extra = {}
    if prop.extra is not None and status == 0:
        try:
            extra = prop.extra(tier, seed_value) or {}
        except Violation as v:
            path = write_replay(pid, {"facet": "extra", "clause": v.clause, "signature": v.signature,
                                      "detail": v.detail, "case": getattr(v, "case", None), "seed": seed_value})
            print(f"violation [extra] {v.clause}: {v.detail[:400]}")
            print(f"VIOLATION property={pid} replay={path}")
            n_viol += 1
            status = 1

    total_eval = sum(m["evaluations"] for m in facets.values())
    total_nt = sum(len(m["nt"]) for m in facets.values())
    total_inc = sum(m["inconclusive"] for m in facets.values())
    samples = []
    for name, m in facets.items():
        for s in m["samples"][:1]:
            samples.append({"facet": name, "case": s})
    problems = []
    for f in prop.facets:
        m = facets.get(f.name)
        if m is None:
            continue
        if status == 0 and not m["budget_exhausted"]:
            for c in f.essential:
                if m["classes"].get(c, 0) == 0:
                    problems.append(f"facet {f.name}: essential class '{c}' has no member (generator regression)")
        if m["evaluations"] and m["inconclusive"] > 0.05 * m["evaluations"]:
            problems.append(f"facet {f.name}: {m['inconclusive']} of {m['evaluations']} cases inconclusive")
        if m["max_cpu"] > 5.0:
            problems.append(f"facet {f.name}: slowest case used {m['max_cpu']:.1f}s CPU (watchdog margin too thin)")

    evidence = {
        "property_id": pid,
        "tier": tier,
        "seed": seed_value,
        "level": "exploration",
        "coverage": {
            "evaluations": total_eval,
            "distinct_nontrivial": total_nt,
            "rule": prop.rule,
            "samples": samples or [{"note": "no non-trivial sample"}],
            "exhaustive": False,   # every facet also samples an unbounded space; exhaustive sub-enumerations are reported per facet
            "facets": {
                name: {"evaluations": m["evaluations"], "nontrivial": m["nontrivial"],
                       "distinct_nontrivial": len(m["nt"]), "classes": dict(m["classes"]),
                       "excluded_known": dict(m["muted"]), "inconclusive": m["inconclusive"],
                       "max_case_cpu_s": round(m["max_cpu"], 3), "exhaustive_part_complete": m["exhaustive"],
                       "budget_exhausted": m["budget_exhausted"]}
                for name, m in facets.items()
            },
            "regressions_replayed": n_reg,
            "known_findings": [k["what"] for k in known_active],
            "shards": nshards,
            "inconclusive": total_inc,
            "harness_problems": problems,
            **extra,
        },
        "assumptions": prop.assumptions,
        "wall_s": round(time.time() - t0, 2),
        "violations": n_viol,
    }
    os.makedirs(os.path.join(VERIF, "evidence"), exist_ok=True)
    with open(os.path.join(VERIF, "evidence", f"{pid}.json"), "w") as f:
        json.dump(evidence, f, indent=1, default=common.jdefault)
    print(f"{pid} {tier}: {total_eval} cases, {total_nt} distinct non-trivial, {n_reg} regressions, "
          f"{n_viol} violations, {evidence['wall_s']}s")
    if status == 0 and problems:
        # Coverage and speed diagnostics are recorded in the evidence and printed, but they do not fail the check: an essential
        # class that is merely rare can be empty at some seed, and CPU time per case depends on how loaded the machine is. Only
        # a run that could not judge a noticeable share of its cases (inconclusive > 5%) is reported as a harness problem.
        hard = [p for p in problems if "inconclusive" in p]
        for p in problems:
            print("HARNESS-PROBLEM:" if p in hard else "GENERATOR-NOTE:", p)
        if hard:
            return 2
    return status


if __name__ == "__main__":
    try:
        rc = main(sys.argv[1:])
    except HarnessError as e:
        print("HARNESS-ERROR:", e)
        rc = 2
    except Exception:
        traceback.print_exc()
        rc = 2
    sys.exit(rc)
