"""C11 - token-bucket output conforms to (rate, bucket) and delays nothing needlessly; colours (DESIGN 4/C11)."""
from fractions import Fraction

from hypothesis import strategies as st

from onl.netdev import TokenBucket, TwoRateTokenBucket

from ..core import kgen, netlab
from ..core.common import Violation
from ..core.netlab import F, Lab
from ..runner import Facet, Property
from .c10 import check_same

TOL = 1e-9


def close(a, b, exact):
    if exact:
        return F(a) == F(b)
    return abs(float(a) - float(b)) <= TOL * max(1.0, abs(float(a)), abs(float(b))) + 1e-12


class Shaper:
    """reference shaper from the statement, in Fractions"""

    def __init__(self, rate, bucket, peak):
        self.rate, self.B, self.peak = F(rate), F(bucket), (F(peak) if peak else None)
        self.tokens = F(bucket)
        self.upd = F(0)
        self.prev_exit = None

    def serve(self, a, size):
        """returns (head instant, debit instant, exit instant, waited?, tokens at head)"""
        h = a if self.prev_exit is None else max(a, self.prev_exit)
        self.tokens = min(self.B, self.tokens + self.rate * (h - self.upd) / 8)
        at_head = self.tokens
        if size <= self.tokens:
            tau = h
            self.tokens -= size
            waited = False
        else:
            tau = h + (F(size) - self.tokens) * 8 / self.rate
            self.tokens = F(0)
            waited = True
        self.upd = tau
        ex = tau + F(8 * size) / self.peak if self.peak else tau
        self.prev_exit = ex
        return h, tau, ex, waited, at_head


def run_tb(case):
    lab = Lab(clause="C11.no_exception")
    exact = case["exact"]
    tb = TokenBucket(lab.env, case["rate"], case["bucket"], peak=case["peak"])
    out = lab.tap("out")
    tb.out = out
    entry = lab.tap("in", tb)
    lab.inject(entry, case["wl"])
    lab.run()
    classes = set()
    conformance(case["rate"], case["bucket"], case["peak"], entry.recs, out.recs, exact, classes, "C11")
    if tb.packets_received != len(entry.recs) or tb.packets_sent != len(out.recs):
        raise Violation("C11.counters", f"received={tb.packets_received} sent={tb.packets_sent}", "C11.counters")
    nt = "delayed by the bucket" in classes and "undelayed after refill" in classes
    return {"nontrivial": nt, "classes": sorted(classes)}


def conformance(rate, bucket, peak, ins, outs, exact, classes, tag):
    if len(outs) != len(ins):
        raise Violation("C08.quiescence", f"{len(ins)} packets entered, {len(outs)} left", "C08.quiescence/" + tag)
    ref = Shaper(rate, bucket, peak)
    taus, sizes, waits = [], [], []
    for k, (ri, ro) in enumerate(zip(ins, outs)):
        check_same(ri, ro)
        size = ri.snap[3]
        h, tau, ex, waited, at_head = ref.serve(F(ri.now), size)
        if not close(ex, ro.now, exact):
            raise Violation(tag + ".release_instant",
                            f"packet {k + 1} (size {size}, entered {ri.now!r}, head at {float(h)!r}, tokens then {float(at_head)!r}) "
                            f"released at {ro.now!r}, reference {float(ex)!r} (rate {rate}, bucket {bucket}, peak {peak})",
                            tag + ".release_instant/" + ("early" if ro.now < float(ex) else "late"))
        if not exact:
            # keep the reference from drifting: continue from the observed release
            ref.prev_exit = F(ro.now)
        taus.append(F(ro.now) - (F(8 * size) / F(peak) if peak else 0))
        sizes.append(size)
        waits.append(waited)
        if waited:
            classes.add("delayed by the bucket")
            if size > bucket:
                classes.add("size > bucket")
        else:
            if k > 0 and waits[k - 1]:
                classes.add("undelayed after refill")
            if at_head == size:
                classes.add("size == tokens")
            if at_head == bucket and k > 0:
                classes.add("idle -> cap")
        if peak and k > 0 and ro.now - outs[k - 1].now <= float(F(8 * size) / F(peak)) * (1 + 1e-9) and not waited:
            classes.add("peak spacing binding")
    # model-free conformance: sum(size_i..size_j) <= max(B, size_i) + rate*(tau_j - tau_i)/8
    n = len(sizes)
    tol = 0 if exact else Fraction(1, 10 ** 6)
    for i in range(n):
        tot = 0
        for j in range(i, n):
            tot += sizes[j]
            if tot > max(F(bucket), sizes[i]) + F(rate) * (taus[j] - taus[i]) / 8 + tol:
                raise Violation(tag + ".conformance", f"departures {i + 1}..{j + 1}: {tot} bytes released in "
                                                      f"{float(taus[j] - taus[i])}s exceed max(bucket, size_i) + rate*dt/8",
                                tag + ".conformance")
        if peak and i > 0:
            gap = F(outs[i].now) - F(outs[i - 1].now)
            if gap + tol < F(8 * sizes[i]) / F(peak):
                raise Violation(tag + ".peak_spacing", f"departures {i} and {i + 1} are {float(gap)}s apart, < 8*size/peak",
                                tag + ".peak_spacing")
    return taus, waits


def run_trtb(case):
    lab = Lab(clause="C11.no_exception")
    exact = case["exact"]
    cir, cbs, pir, pbs = case["cir"], case["cbs"], case["pir"], case["pbs"]
    kw = {}
    if pir:
        kw = {"pir": pir, "pbs": pbs}
    tb = TwoRateTokenBucket(lab.env, cir, cbs, **kw)
    out = lab.tap("out")
    tb.out = out
    entry = lab.tap("in", tb)
    pkts = lab.inject(entry, case["wl"])
    classes = set()
    if len(pkts) % 2 == 1:
        # packets that were marked by a meter upstream: the colour given here depends on this meter's buckets alone
        for i, p in enumerate(pkts):
            p.color = [None, "yellow", None, "red", "green", "red", None][(i + len(pkts)) % 7]
        classes.add("packets arrive already coloured")
    lab.run()
    if pir:
        taus, waits = conformance(pir, pbs, None, entry.recs, out.recs, exact, classes, "C11.two_rate")
    else:
        taus, waits = conformance(cir, cbs, None, entry.recs, out.recs, exact, classes, "C11.two_rate")
    # colours
    lo = hi = F(cbs)
    upd = F(0)
    green_tau, green_size = [], []
    prev_exit = None
    colours = set()
    for k, (ri, ro) in enumerate(zip(entry.recs, out.recs)):
        size = ri.snap[3]
        colour = ro.pkt.color
        colours.add(colour)
        h = F(ri.now) if prev_exit is None else max(F(ri.now), prev_exit)
        lo = min(F(cbs), lo + F(cir) * (h - upd) / 8)
        hi = min(F(cbs), hi + F(cir) * (h - upd) / 8)
        upd = F(ro.now)
        prev_exit = F(ro.now)
        waited = waits[k]
        if pir:
            if waited:
                want = {"red"}
            elif size <= lo:
                want = {"green"}
            elif size > hi:
                want = {"yellow"}
            else:
                want = {"green", "yellow"}
                classes.add("committed level ambiguous")
        else:
            want = {"yellow"} if waited else {"green"}
        if not exact and len(want) == 1:
            # near-ties in the float domain: accept either side within tolerance
            if abs(float(size) - float(lo)) <= 1e-6 * max(1.0, size) or abs(float(size) - float(hi)) <= 1e-6 * max(1.0, size):
                want = {"green", "yellow", colour} if not waited else want
        if colour not in want:
            raise Violation("C11.colour", f"packet {k + 1} (size {size}, waited={waited}, committed tokens at head in "
                                          f"[{float(lo)}, {float(hi)}]) coloured {colour!r}, expected {sorted(want)}",
                            "C11.colour/" + str(colour) + "-for-" + "-or-".join(sorted(want)))
        if colour == "green":
            lo, hi = max(F(0), lo - size), max(F(0), hi - size)
            green_tau.append(taus[k])
            green_size.append(size)
        elif colour == "yellow":
            # the committed bucket was short of `size`; it may have been emptied or left alone
            lo, hi = F(0), min(hi, F(size))
        else:
            # red: the packet had to wait for peak tokens; it is out of profile and consumes no committed tokens
            # (two-rate three-colour marking, RFC 2698), so the committed level is left as it was
            pass
    # green traffic conforms to (CIR, CBS)
    n = len(green_size)
    tol = 0 if exact else Fraction(1, 10 ** 6)
    for i in range(n):
        tot = 0
        for j in range(i, n):
            tot += green_size[j]
            if tot > F(cbs) + F(cir) * (green_tau[j] - green_tau[i]) / 8 + tol:
                raise Violation("C11.green_conformance", f"green packets {i + 1}..{j + 1}: {tot} bytes in "
                                                         f"{float(green_tau[j] - green_tau[i])}s exceed CBS + CIR*dt/8", "C11.green_conformance")
    classes |= {"colour " + str(c) for c in colours}
    classes.add("with PIR" if pir else "without PIR")
    if "committed level ambiguous" not in classes and len(colours) >= 2 and pir:
        classes.add("committed level exactly known throughout")
    return {"nontrivial": len(colours) >= 2 and "delayed by the bucket" in classes, "classes": sorted(classes)}


def tb_strategy(tier):
    big = tier == "thorough"

    def build(exact):
        if exact:
            rate = netlab.exact_rate(3, 14)
            bucket = st.sampled_from([1, 64, 100, 512, 1000, 1500, 3000, 4096])
            # the peak rate is any positive rate: above, equal to and below the token rate (it still spaces a burst out)
            peakf = st.sampled_from([None, None, 2, 4, 16, 1, 0.5, 0.25])
        else:
            rate = st.sampled_from([8000.0, 9600, 1e5, 12345.678, 64000])
            bucket = st.sampled_from([100, 500, 1500, 2000, 3333])
            peakf = st.sampled_from([None, 1.5, 2, 10, 1, 0.5])
        sizes = kgen.weighted([(st.sampled_from([1, 64, 100, 512, 1000, 1500, 3000]), 3), (st.integers(1, 3000), 1)])
        wl = netlab.workload([0, 1], n_max=50 if big else 25, exact=exact, sizes=sizes, min_size=3, late=True)
        return st.tuples(rate, bucket, peakf, wl).map(lambda t: {"exact": exact, "rate": t[0], "bucket": t[1],
                                                                  "peak": None if t[2] is None else t[0] * t[2], "wl": t[3]})
    return kgen.weighted([(build(True), 4), (build(False), 1)])


def trtb_strategy(tier):
    big = tier == "thorough"

    def build(exact):
        if exact:
            cir = netlab.exact_rate(3, 12)
            cbs = st.sampled_from([100, 512, 1000, 1500, 3000])
            pf = st.sampled_from([None, 2, 4, 8])
            pbs = st.sampled_from([512, 1000, 1500, 3000, 6000])
        else:
            cir = st.sampled_from([8000.0, 9600, 12345.678])
            cbs = st.sampled_from([500, 1500, 2000])
            pf = st.sampled_from([None, 1.5, 3])
            pbs = st.sampled_from([1000, 3000, 4500])
        sizes = st.sampled_from([64, 100, 512, 1000, 1500, 3000, 50])
        wl = netlab.workload([0, 1], n_max=50 if big else 25, exact=exact, sizes=sizes, min_size=3, late=True)
        return st.tuples(cir, cbs, pf, pbs, wl).map(lambda t: {"exact": exact, "cir": t[0], "cbs": t[1],
                                                                "pir": None if t[2] is None else t[0] * t[2],
                                                                "pbs": None if t[2] is None else t[3], "wl": t[4]})

    def red_green():
        """large committed bucket, small peak bucket: packets are red or green, rarely yellow, so the committed level stays
        exactly known and a wrong committed balance shows in the green/yellow decision"""
        sizes = st.sampled_from([64, 100, 300, 512, 600, 1000, 1024])
        wl = netlab.workload([0, 1], n_max=40 if big else 20, exact=True, sizes=sizes, min_size=4, late=False)
        return st.tuples(netlab.exact_rate(6, 12), st.sampled_from([2048, 3000, 4096]), st.sampled_from([2, 2, 4]),
                         st.sampled_from([512, 1024, 2048]), wl).map(
            lambda t: {"exact": True, "cir": t[0], "cbs": t[1], "pir": t[0] * t[2], "pbs": t[3], "wl": t[4]})
    return kgen.weighted([(build(True), 4), (build(False), 1), (red_green(), 3)])


PROP = Property(
    "C11",
    rule=("TokenBucket(rate, bucket_size, peak) and TwoRateTokenBucket(cir, cbs[, pir, pbs]) fed generated workloads (packets "
          "larger than the bucket, exact-fit sizes, long idle gaps, bursts; exact dyadic domain and float domain). Oracle: "
          "reference shaper in Fractions (head instant = max(arrival, previous release); tokens = min(B, tokens + rate*dt/8); "
          "debit at once when covered, else after exactly the missing tokens; + 8*size/peak): release instants equal the "
          "reference (== exact domain, 1e-9 float); FIFO, same objects, nothing lost; model-free: for all i<=j sum(size_i..j) "
          "<= max(B,size_i) + rate*(tau_j - tau_i)/8 and consecutive releases >= 8*size/peak apart. Two-rate: shaping against "
          "(PIR,PBS) or (CIR,CBS); red iff it waited for peak tokens; green/yellow decided by a committed-level interval "
          "(size<=lo green, size>hi yellow, else either; without PIR yellow iff waited); green packets alone conform to "
          "(CIR,CBS). Non-trivial = >=1 packet delayed by the bucket and >=1 passing undelayed after a refill (two-rate: >=2 "
          "colours)."),
    facets=[
        Facet("token_bucket", tb_strategy, run_tb, quick=1200, thorough=8000,
              essential=["delayed by the bucket", "undelayed after refill", "size > bucket", "size == tokens", "idle -> cap",
                         "peak spacing binding"]),
        Facet("two_rate", trtb_strategy, run_trtb, quick=1000, thorough=6000,
              essential=["colour green", "colour yellow", "colour red", "with PIR", "without PIR",
                         "committed level exactly known throughout", "packets arrive already coloured"]),
    ],
    assumptions=["what a yellow packet does to the committed bucket is not specified (the code empties it, RFC 2698 leaves it): "
                 "tracked as an interval; a red packet consumes no committed tokens"],
)
