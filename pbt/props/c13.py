"""C13 - static priority always serves the highest-priority backlogged flow (DESIGN 4/C13)."""
from hypothesis import strategies as st

from ..core import kgen, schedlab
from ..core.common import Violation
from ..core.netlab import F
from ..runner import Facet, Property
from . import c12


def run_sp(case):
    run = schedlab.Run(case, clause="C13.no_exception")
    run.go()
    run.check_all_exited()
    tl = run.timeline(case["exact"])
    prio = {f: p for f, p in case["table"]}
    classes = set()
    multi_level_starts = 0
    for it in tl:
        served = it["in"]
        p_served = prio[served.snap[1]]
        waiting = run.certainly_waiting(it)
        levels = {prio[r.snap[1]] for r in waiting} | {p_served}
        if len(levels) >= 2:
            multi_level_starts += 1
        for r in waiting:
            if prio[r.snap[1]] > p_served:
                raise Violation("C13.highest_first",
                                f"at t={float(it['s'])} SP started packet {served.snap[0]} of flow {served.snap[1]} (priority {p_served}) "
                                f"while packet {r.snap[0]} of flow {r.snap[1]} (priority {prio[r.snap[1]]}) had been waiting since "
                                f"t={r.now}", "C13.highest_first")
        if waiting and all(prio[r.snap[1]] < p_served for r in waiting):
            classes.add("higher level served over waiting lower level")
        if any(prio[r.snap[1]] == p_served and r.snap[1] != served.snap[1] for r in waiting):
            classes.add("equal priorities backlogged")
    # non-preemption: a more urgent arrival during a transmission does not abort it (C12 service law) - count the occasions
    for it in tl:
        for r in run.entry.recs:
            if it["s"] < F(r.now) < it["x"] and prio[r.snap[1]] > prio[it["in"].snap[1]]:
                classes.add("more urgent arrival during a transmission")
    if multi_level_starts >= 2:
        classes.add(">=2 levels backlogged at >=2 service starts")
    if any(int(a) == int(b) and a != b for _, a in case["table"] for _, b in case["table"]):
        classes.add("priorities that differ only in their fractional part")
    if any(w[2] == 0 for w in case["wl"]):
        classes.add("zero-length packet")
    if case.get("probe_all"):
        classes.add("counters of silent flows polled")
    fl = {f for f, _ in case["table"]}
    if case.get("f2c") and any(c in fl and c != f for f, c in case["f2c"]):
        classes.add("flow2class maps onto other flows' ids")
    return {"nontrivial": multi_level_starts >= 2, "classes": sorted(classes)}


SIZES0 = st.sampled_from([64, 128, 256, 512, 1024, 1536, 2048, 3072, 0, 64, 128])      # zero-length packets are legal


def sp_f2c(flows, mode):
    """SP's priorities are per flow; flow2class only labels packets. Modes: identity, classes disjoint from the flow ids, classes
    that are themselves flow ids of the table (rotated / folded)"""
    if mode == 0:
        return None
    if mode == 1:
        return [[f, 10 + (f % 2)] for f in flows]
    if mode == 2:
        return [[f, flows[(i + 1) % len(flows)]] for i, f in enumerate(flows)]
    return [[f, flows[i % 2]] for i, f in enumerate(flows)]


def strategy(tier):
    big = tier == "thorough"

    def build(n):
        flows = st.permutations(list(range(6))).map(lambda p: list(p)[:n])
        # priorities are numbers, not necessarily integers: 1.25 < 1.75, 0.25 < 0.5
        prio = kgen.weighted([(st.integers(1, 4), 3), (st.sampled_from([1.25, 1.75, 0.5, 0.25, 2.5, 1.5, 0.75]), 1)])
        return st.tuples(flows, st.lists(prio, min_size=n, max_size=n), st.integers(0, 3)).flatmap(
            lambda t: st.tuples(schedlab.nice_rate(),
                                kgen.weighted([(schedlab.sched_workload(t[0], 45 if big else 28, exact=True, sizes=SIZES0), 3),
                                               (schedlab.sched_workload(t[0], 30, static=True), 1)])).map(
                lambda rw: {"kind": "SP", "exact": True, "rate": rw[0], "table": [[f, v] for f, v in zip(t[0], t[1])],
                            "f2c": sp_f2c(t[0], t[2]), "wl": rw[1],
                            # somebody polls the counters of every configured flow, also of flows that have not sent yet
                            "probe_all": len(rw[1]) % 2 == 0, "probe_from": [0, 1 / 16, 1 / 4][len(rw[1]) % 3]}))
    return st.integers(2, 5).flatmap(build)


PROP = Property(
    "C13",
    rule=("SP with 2-5 flows, positive priorities (ties allowed), exact-domain rates; workloads keeping several levels "
          "backlogged (bursts, static backlogs, arrivals at service boundaries, early and late injection). Oracle: for every "
          "service start (from the C12 timeline), no packet whose arrival was observed before the previous exit and which is "
          "still waiting belongs to a flow with strictly higher priority than the served packet's flow; the C12 service law "
          "rules out aborted transmissions. Non-trivial = >=2 priority levels simultaneously backlogged at >=2 service starts."),
    facets=[Facet("sp", strategy, run_sp, quick=1200, thorough=8000,
                  essential=[">=2 levels backlogged at >=2 service starts", "higher level served over waiting lower level",
                             "more urgent arrival during a transmission", "equal priorities backlogged",
                             "flow2class maps onto other flows' ids", "priorities that differ only in their fractional part", "counters of silent flows polled"])],
    assumptions=["'waiting at that instant' = arrival observed (tap order) before the previous exit; same-instant arrivals after it "
                 "may or may not have been seen by the scheduler"],
)
