"""C08 - packets are never lost, duplicated or invented between source and sink; generator and sink books (DESIGN 4/C08)."""
import random as pyrandom
from math import inf

from hypothesis import strategies as st

import onl.netdev.red_port as red_mod
import onl.netdev.wire as wire_mod
from onl.netdev import FairPacketSwitch, NSplitter, Port, SimplePacketSwitch, TokenBucket, TwoRateTokenBucket, Wire
from onl.netdev.demux import FIBDemux, FlowDemux, RandomDemux
from onl.netdev.red_port import REDPort
from onl.packet import DistPacketGenerator, Packet, PacketSink
from onl.scheduler import DRR, RR, SP, VC, WFQ, WRR

from ..core import kgen, netlab
from ..core.common import HarnessError, Violation, crash
from ..core.netlab import F, Lab
from ..runner import Facet, Property

ELEMENT_TYPES = ["port", "port0", "red", "wire", "wire_loss", "tb", "trtb", "SP", "WFQ", "VC", "DRR", "RR", "WRR",
                 "flowdemux", "fibdemux", "simpleswitch", "fairswitch", "randomdemux"]


class Elem:
    """an element under test with a tap in front of it and a tap behind every output"""

    def __init__(self, lab, spec, flows, name):
        self.lab = lab
        self.spec = spec
        self.name = name
        self.type = t = spec["type"]
        env = lab.env
        self.outs = []
        self.lossy = False          # may lose without counting (wire loss)
        self.no_route = lambda pkt: False
        self.counted = lambda: 0
        self.single_out = True
        w = {f: 1 + (f % 3) for f in flows}
        rate = spec.get("rate", 8192)
        if t in ("port", "port0"):
            self.dev = Port(env, rate if t == "port" else 0, spec.get("qlimit"), spec.get("bytes", False), name)
            self.counted = lambda: self.dev.packets_dropped
        elif t == "red":
            self.dev = REDPort(env, rate, max_threshold=3, min_threshold=1, max_probability=0.5, element_id=name, qlimit=6,
                               weight_factor=spec.get("wf", 1))
            self.counted = lambda: self.dev.packets_dropped
        elif t in ("wire", "wire_loss"):
            d = spec.get("delay", 0.125)
            self.dev = Wire(env, lambda: d, loss_rate=0.3 if t == "wire_loss" else None)
            self.lossy = t == "wire_loss"
        elif t == "tb":
            self.dev = TokenBucket(env, rate, spec.get("bucket", 1500), peak=spec.get("peak"))
        elif t == "trtb":
            self.dev = TwoRateTokenBucket(env, rate, spec.get("bucket", 1500), pir=rate * 4, pbs=3000)
        elif t == "SP":
            self.dev = SP(env, rate, w)
        elif t in ("WFQ", "VC", "DRR") and spec.get("strcls"):
            # class ids are opaque keys: service classes named by strings, several flows per class
            names = ["gold", "silver", "bronze", "best-effort", "scavenger"]
            f2c = (lambda f: names[f % 3]) if spec["strcls"] == 1 else (lambda f: names[f % len(names)])
            tbl = {n: (1 + i % 3 if t != "VC" else 0.25 * (1 + i % 2)) for i, n in enumerate(names)}
            self.dev = {"WFQ": WFQ, "VC": VC, "DRR": DRR}[t](env, rate, tbl, flow2class=f2c)
        elif t == "WFQ":
            self.dev = WFQ(env, rate, w)
        elif t == "VC":
            # a vtick of 0 is legal: all packets of such a flow carry equal stamps
            self.dev = VC(env, rate, {f: (0 if spec.get("vt0") and f % 2 == 0 else 0.25 * (1 + f % 2)) for f in flows})
        elif t == "DRR":
            self.dev = DRR(env, rate, w)
        elif t == "RR":
            self.dev = RR(env, rate, list(flows))
        elif t == "WRR":
            self.dev = WRR(env, rate, w)
        elif t == "randomdemux":
            # weights are relative (as random.choices takes them): any positive table, normalised or not
            self.single_out = False
            n = spec.get("nouts", 3)
            self.branch_taps = [lab.tap(f"{name}.out{i}") for i in range(n)]
            self.dev = RandomDemux(list(self.branch_taps), list(spec.get("probs", [1, 1, 1, 1]))[:n])
            self.route = lambda pkt: None
            self.any_out = True
            self.outs = list(self.branch_taps)
        elif t in ("flowdemux", "fibdemux", "simpleswitch", "fairswitch"):
            self.single_out = False
            n = spec.get("nouts", 3)
            self.branch_taps = [lab.tap(f"{name}.out{i}") for i in range(n)]
            self.default_tap = lab.tap(f"{name}.default") if spec.get("default") else None
            if t == "flowdemux":
                self.dev = FlowDemux(list(self.branch_taps), self.default_tap)
                self.route = lambda pkt: (self.branch_taps[pkt.flow_id] if pkt.flow_id < n else self.default_tap)
            elif t == "fibdemux":
                fib = {f: (f * 2 + 1) % (n + 1) for f in flows if f % 4 != 3}
                self.dev = FIBDemux(outs=list(self.branch_taps), fib=dict(fib), default_out=self.default_tap)
                fib_at = self._refib(spec, fib, {f: (f + 2) % (n + 1) for f in flows if f % 4 != 0}, self.dev)
                ends = self._ends(spec, flows, self.dev)
                self.route = lambda pkt: (ends[pkt.flow_id] if pkt.flow_id in ends else
                                          self.branch_taps[fib_at(pkt)[pkt.flow_id]]
                                          if pkt.flow_id in fib_at(pkt) and fib_at(pkt)[pkt.flow_id] < n else self.default_tap)
            elif t == "simpleswitch":
                self.dev = SimplePacketSwitch(env, n, rate, spec.get("qlimit", 4), element_id=name)
                for i, p in enumerate(self.dev.ports):
                    p.out = self.branch_taps[i]
                self.route = lambda pkt: (self.branch_taps[pkt.flow_id] if pkt.flow_id < n else None)
                self.counted = lambda: sum(p.packets_dropped for p in self.dev.ports)
            else:
                fib = {f: f % n for f in flows}
                if spec.get("strcls"):
                    wts, f2c = {"gold": 1, "silver": 2, "bronze": 3}, (lambda f: ("gold", "silver", "bronze")[f % 3])
                else:
                    wts, f2c = {c: 1 + c for c in range(2)}, (lambda f: f % 2)
                self.dev = FairPacketSwitch(env, n, rate, spec.get("qlimit", 4), wts, spec.get("server", "WFQ"),
                                            element_id=name, flow2class=f2c)
                self.dev.demux.fib = dict(fib)
                for i, p in enumerate(self.dev.ports):
                    p.out = self.branch_taps[i]
                fib_at = self._refib(spec, fib, {f: (f + 1) % n for f in flows}, self.dev.demux)
                ends = self._ends(spec, flows, self.dev.demux)
                self.route = lambda pkt: ends[pkt.flow_id] if pkt.flow_id in ends else self.branch_taps[fib_at(pkt)[pkt.flow_id]]
                self.counted = lambda: sum(p.packets_dropped for p in self.dev.egress_ports)
            self.no_route = lambda pkt: self.route(pkt) is None
            self.outs = list(self.branch_taps) + ([self.default_tap] if self.default_tap else []) + getattr(self, "end_taps", [])
        else:
            raise HarnessError(t)
        if self.single_out:
            self.out = lab.tap(f"{name}.out")
            self.dev.out = self.out
            self.outs = [self.out]
        self.inp = lab.tap(f"{name}.in", self.dev)

    def _ends(self, spec, flows, demux):
        """end devices (local sinks) registered on the demux after construction, the way applications attach their hosts: they
        take precedence over the table and belong to this element only"""
        ends = {}
        if spec.get("ends"):
            for f in flows:
                if f % 3 == spec["ends"] % 3:
                    ends[f] = self.lab.tap(f"{self.name}.end{f}")
                    demux.ends[f] = ends[f]
            self.end_taps = list(ends.values())
        return ends

    def _refib(self, spec, fib1, fib2, demux):
        """the forwarding table is moved at an instant that is no arrival instant (odd multiple of 2^-11): packets that enter
        before it follow the old table, packets that enter after it the new one. Returns packet -> table in force at its entry."""
        k = spec.get("refib")
        if not k:
            return lambda pkt: fib1
        T = k / 2048
        ev = self.lab.env.timeout(T)
        if spec.get("refib_inplace"):
            def move(_e):
                d = demux.fib
                d.clear()
                d.update(fib2)
        else:
            def move(_e):
                demux.fib = dict(fib2)
        ev.callbacks.append(move)
        self.refibbed = True

        def fib_at(pkt):
            t_in = next(r.now for r in self.inp.recs if r.pkt is pkt)
            return fib2 if t_in > T else fib1
        return fib_at

    # accounting at any instant: in = out + counted drops + (lost on a lossy wire | no route) + held, each packet once
    def check_step(self):
        lab = self.lab
        n_in = len(self.inp.recs)
        n_out = sum(len(o.recs) for o in self.outs)
        drops = self.counted()
        noroute = sum(1 for r in self.inp.recs if self.no_route(r.pkt))
        held = n_in - n_out - drops - noroute
        if held < 0:
            lab.flag("C08.accounting", f"{self.name} ({self.type}): {n_in} in, {n_out} out, {drops} counted drops, {noroute} without "
                                       f"route: more packets left or were discarded than entered", "C08.accounting/" + self.type)

    def check_end(self, classes):
        if getattr(self, "refibbed", False) and self.inp.recs and self.inp.recs[-1].now > self.spec["refib"] / 2048 > self.inp.recs[0].now:
            classes.add("forwarding table moved between two packets")
        ins = {id(r.pkt): r for r in self.inp.recs}
        if len(ins) != len(self.inp.recs):
            return      # the same object entered twice (splitter original + copy never does this); skip
        seen = {}
        per_flow_last = {}
        n_out = 0
        for o in self.outs:
            for r in o.recs:
                n_out += 1
                ri = ins.get(id(r.pkt))
                if ri is None or ri.pkt is not r.pkt:
                    raise Violation("C08.invented", f"{self.name} ({self.type}) emitted a packet that never entered it "
                                                    f"(id {r.snap[0]}, flow {r.snap[1]})", "C08.invented/" + self.type)
                if id(r.pkt) in seen:
                    raise Violation("C08.duplicated", f"{self.name} ({self.type}) emitted packet {r.snap[0]} of flow {r.snap[1]} twice",
                                    "C08.duplicated/" + self.type)
                seen[id(r.pkt)] = r
                if r.snap != ri.snap:
                    raise Violation("C08.fields", f"{self.name} ({self.type}) changed identifying fields {ri.snap} -> {r.snap}",
                                    "C08.fields/" + self.type)
                if not self.single_out and not getattr(self, "any_out", False) and self.route(r.pkt) is not o:
                    raise Violation("C08.route", f"{self.name} ({self.type}) sent flow {r.snap[1]} to {o.name}", "C08.route/" + self.type)
        # per-flow FIFO over all outputs in exit order (per table epoch when the forwarding table was moved: packets routed to
        # a new output port legitimately overtake those still queued at the old one)
        moved = getattr(self, "refibbed", False)
        for r in sorted(seen.values(), key=lambda r: r.seq):
            ri = ins[id(r.pkt)]
            f = ri.snap[1] if not moved else (ri.snap[1], ri.now > self.spec["refib"] / 2048)
            if f in per_flow_last and ri.seq < per_flow_last[f]:
                raise Violation("C08.flow_fifo", f"{self.name} ({self.type}): packets of flow {f} left out of order", "C08.flow_fifo/" + self.type)
            per_flow_last[f] = ri.seq
        n_in = len(self.inp.recs)
        drops = self.counted()
        noroute = sum(1 for r in self.inp.recs if self.no_route(r.pkt))
        held = n_in - n_out - drops - noroute
        if drops:
            classes.add("counted drop")
        if noroute:
            classes.add("no route")
        if held and self.lossy:
            classes.add("wire loss")
            return
        if held:
            raise Violation("C08.quiescence", f"{self.name} ({self.type}): run out of events with {held} packet(s) still held "
                                              f"({n_in} in, {n_out} out, {drops} counted drops, {noroute} no route)",
                            "C08.quiescence/" + self.type)
        if any(r.now > ins[id(r.pkt)].now for o in self.outs for r in o.recs):
            classes.add("queued or delayed")


def with_seeded_random(seed, fn):
    old_w, old_r = wire_mod.random, red_mod.random
    rng = pyrandom.Random(seed)
    wire_mod.random = rng
    red_mod.random = rng
    try:
        return fn()
    finally:
        wire_mod.random, red_mod.random = old_w, old_r


def run_element(case):
    def go():
        lab = Lab(clause="C08.no_exception")
        flows = sorted({w[1] for w in case["wl"]})
        el = Elem(lab, case["elem"], flows, "e0")
        lab.inject(el.inp, case["wl"])
        lab.after_step.append(el.check_step)
        twin = None
        if case.get("wl2"):
            # a second element of the same kind and parameters in the same environment (the other ports of a switch, the other
            # direction of a link): it serves its own packets; the two share nothing
            twin = Elem(lab, case["elem"], sorted({w[1] for w in case["wl2"]}), "e1")
            lab.inject(twin.inp, case["wl2"], src_prefix="twin")
            lab.after_step.append(twin.check_step)
        lab.run()
        classes = {case["elem"]["type"]}
        el.check_end(classes)
        if twin is not None:
            twin.check_end(set())
            classes.add("twin element in the same environment")
        if el.type in ("port", "port0"):
            # "discarded by that element's documented rule": the tail-drop rule itself is C09's reference server
            from . import c09
            sp = case["elem"]
            rate = 0 if el.type == "port0" else sp.get("rate", 8192)
            c09.run_port({"exact": rate in netlab.EXACT_RATES or rate == 0, "rate": rate, "qlimit": sp.get("qlimit"),
                          "limit_bytes": sp.get("bytes", False), "eid": "e0", "wl": case["wl"]})
            classes.add("tail-drop rule checked")
        bursts = len({w[0] for w in case["wl"]}) < len(case["wl"])
        nt = len(flows) >= 2 and bursts and ("queued or delayed" in classes or "counted drop" in classes or "wire loss" in classes
                                             or "no route" in classes or not el.single_out)
        return {"nontrivial": nt, "classes": sorted(classes)}
    return with_seeded_random(case["seed"], go)


def run_pipeline(case, driver=None, trace=None):
    def go():
        lab = Lab(clause="C08.no_exception", budget=400000)
        lab.driver = driver
        env = lab.env
        nflows = len(case["gens"])
        flows = list(range(nflows))
        elems = []
        classes = set()
        # chain
        for i, spec in enumerate(case["chain"]):
            elems.append(Elem(lab, spec, flows, f"c{i}"))
        for a, b in zip(elems, elems[1:]):
            a.out.out = b.inp
        # fan-out
        sinks = []
        if case["fanout"]:
            dm = Elem(lab, {"type": "flowdemux", "nouts": len(case["fanout"]), "default": True}, flows, "fan")
            elems.append(dm)
            if len(elems) > 1:
                elems[-2].out.out = dm.inp
            for bi, branch in enumerate(case["fanout"]):
                prev = dm.branch_taps[bi]
                for j, spec in enumerate(branch):
                    e = Elem(lab, spec, flows, f"b{bi}.{j}")
                    elems.append(e)
                    prev.out = e.inp
                    prev = e.out
                s = PacketSink(env)
                t = lab.tap(f"sink{bi}", s)
                prev.out = t
                sinks.append((t, s, lambda pkt, bi=bi: pkt.flow_id == bi))
            s = PacketSink(env)
            t = lab.tap("sink.default", s)
            dm.default_tap.out = t
            sinks.append((t, s, lambda pkt, n=len(case["fanout"]): pkt.flow_id >= n))
            classes.add("fan-out")
        else:
            s = PacketSink(env, rec_flow_ids=not case.get("by_src", False), absolute_arrivals=not case.get("inter", False))
            t = lab.tap("sink", s)
            if elems:
                elems[-1].out.out = t
            sinks.append((t, s, lambda pkt: True))
        head = elems[0].inp if elems else sinks[0][0]
        split_copy = None
        if case.get("split"):
            sp = NSplitter(2)
            sp.outs[0] = head
            split_copy = lab.tap("copies")
            sp.outs[1] = split_copy
            head = sp
            classes.add("splitter")
        # generators
        gen_taps = []
        for f, g in enumerate(case["gens"]):
            gaps, sizes = list(g["gaps"]), list(g["sizes"])
            n = len(gaps)
            st_ = {"a": 0, "s": 0}

            ends = bool(case.get("finite") and gaps and gaps[-1] > 0)

            def arr(gaps=gaps, st_=st_, ends=ends):
                st_["a"] += 1
                # a source with a finish time draws nothing once its clock has reached it; were it to draw again, the next
                # packet would follow a quarter of a second later and be counted as invented
                return gaps[st_["a"] - 1] if st_["a"] <= len(gaps) else (0.25 if ends else 1e12)

            def siz(sizes=sizes, st_=st_):
                st_["s"] += 1
                return sizes[(st_["s"] - 1) % len(sizes)]
            kw = {}
            if case.get("finite") and gaps and gaps[-1] > 0:
                # the source really ends: its process terminates right after the last scripted packet
                t_end = g["d0"]
                for x in gaps:
                    t_end = t_end + x
                kw["finish"] = t_end
            gen = DistPacketGenerator(env, f"gen{f}", arr, siz, initial_delay=g["d0"], flow_id=f, **kw)
            gt = lab.tap(f"gen{f}.out", head)
            gen.out = gt
            gen_taps.append((gt, g))
        if len(case["gens"]) >= 2:
            classes.add("fan-in")
        monitors = []
        if case.get("monitor"):
            # periodic samplers (they are part of the observable trace of a scenario; C03 compares them across split runs)
            from onl.netdev import PortMonitor
            from onl.scheduler import Monitor
            for e in elems:
                if monitors:
                    break           # one sampler per scenario
                gaps = list(case["monitor"])
                cnt = {"i": 0}

                def dist(gaps=gaps, cnt=cnt):
                    cnt["i"] += 1
                    return gaps[(cnt["i"] - 1) % len(gaps)] if cnt["i"] <= 4 * len(gaps) else 1e12
                if e.type in ("SP", "WFQ", "VC", "DRR", "RR", "WRR"):
                    monitors.append(("sched", e.name, Monitor(env, e.dev, dist, service_included=bool(len(gaps) % 2))))
                elif e.type in ("port", "port0", "red"):
                    pm = PortMonitor(env, e.dev, dist, pkt_in_service_included=bool(len(gaps) % 2))
                    env.process(pm.run())
                    monitors.append(("port", e.name, pm))
            if monitors:
                classes.add("with monitors")
        for e in elems:
            lab.after_step.append(e.check_step)
        lab.run(until=1e9)
        for e in elems:
            e.check_end(classes)
            classes.add(e.type)
        # generator law
        for f, (gt, g) in enumerate(gen_taps):
            check_generator(gt.recs, g, f"gen{f}", f)
        # end to end: every generated packet reached exactly one sink, or an element accounted for it
        emitted = [r for gt, _ in gen_taps for r in gt.recs]
        arrived = {}
        for t, s, pred in sinks:
            for r in t.recs:
                if id(r.pkt) in arrived:
                    raise Violation("C08.duplicated", f"packet {r.snap[0]} of flow {r.snap[1]} reached two sinks or one sink twice",
                                    "C08.duplicated/pipeline")
                arrived[id(r.pkt)] = r
                if not pred(r.pkt):
                    raise Violation("C08.route", f"packet of flow {r.snap[1]} arrived at {t.name}", "C08.route/pipeline")
            check_sink_books(t.recs, s, t.name)
        em_ids = {id(r.pkt) for r in emitted}
        for pid in arrived:
            if pid not in em_ids:
                raise Violation("C08.invented", "a sink received a packet no generator emitted", "C08.invented/pipeline")
        discarded = sum(e.counted() for e in elems) + sum(sum(1 for r in e.inp.recs if e.no_route(r.pkt)) for e in elems)
        lost_on_wires = len(emitted) - len(arrived) - discarded
        if lost_on_wires and not any(e.lossy for e in elems):
            raise Violation("C08.conservation", f"{len(emitted)} packets generated, {len(arrived)} delivered, {discarded} discarded by "
                                                f"documented rules: {lost_on_wires} unaccounted", "C08.conservation/pipeline")
        if split_copy is not None:
            if len(split_copy.recs) != len(emitted):
                raise Violation("C08.splitter", f"{len(emitted)} packets generated, {len(split_copy.recs)} copies", "C08.splitter/count")
            for rc, re in zip(split_copy.recs, sorted(emitted, key=lambda r: r.seq)):
                if rc.pkt is re.pkt or rc.snap != re.snap:
                    raise Violation("C08.splitter", "copy is the original object or differs in its fields", "C08.splitter/copy")
        if trace is not None:
            trace.extend(lab.global_trace())
            for kind, name, m in monitors:
                if kind == "sched":
                    trace.append(["monitor", name, sorted(((k, list(v)) for k, v in m.sizes.items()), key=lambda kv: repr(kv[0])),
                                  sorted(((k, list(v)) for k, v in m.byte_sizes.items()), key=lambda kv: repr(kv[0]))])
                else:
                    trace.append(["monitor", name, list(m.sizes), list(m.sizes_byte)])
        depth = len(case["chain"]) + (1 + max([len(b) for b in case["fanout"]] or [0]) if case["fanout"] else 0)
        classes.add(f"depth {min(depth, 5)}")
        nt = len(case["gens"]) >= 2 and depth >= 2 and ("queued or delayed" in classes or "counted drop" in classes)
        return {"nontrivial": nt, "classes": sorted(classes)}
    return with_seeded_random(case["seed"], go)


def check_generator(recs, g, src, flow):
    """packet n (ids 1,2,...) leaves at (((d0 + a1) + a2) ... + an) with the n-th drawn size, src = element id"""
    t = g["d0"]
    for n, r in enumerate(recs, 1):
        if n > len(g["gaps"]):
            raise Violation("C08.generator", f"{src} emitted packet {n} although only {len(g['gaps'])} arrivals were drawn before the "
                                             "dormant gap", "C08.generator/extra")
        t = t + g["gaps"][n - 1]
        want = (n, flow, src, g["sizes"][(n - 1) % len(g["sizes"])], t)
        got = (r.snap[0], r.snap[1], r.snap[2], r.snap[3], r.snap[4])
        if got != want or r.now != t:
            raise Violation("C08.generator", f"{src} packet #{n}: (id, flow, src, size, time)={got} emitted at {r.now!r}; the law gives "
                                             f"{want} at {t!r}", "C08.generator/law")
    if len(recs) != len(g["gaps"]):
        raise Violation("C08.generator", f"{src} emitted {len(recs)} packets, {len(g['gaps'])} arrivals were drawn", "C08.generator/count")


def check_sink_books(recs, sink, name):
    keyf = (lambda r: r.snap[1]) if sink.rec_flow_ids else (lambda r: r.snap[2])
    groups = {}
    for r in recs:
        groups.setdefault(keyf(r), []).append(r)
    for k, rs in groups.items():
        n, b = len(rs), sum(r.snap[3] for r in rs)
        if sink.packets_received[k] != n or sink.bytes_received[k] != b:
            raise Violation("C08.sink_books", f"{name}[{k!r}]: packets_received={sink.packets_received[k]} bytes_received="
                                              f"{sink.bytes_received[k]}, delivered {n} packets / {b} bytes", "C08.sink_books/counts")
        times = [r.now for r in rs]
        if sink.rec_arrivals:
            got = list(sink.arrivals[k])
            if sink.absolute_arrivals:
                want = times
                ok = got == want
            else:
                want = [times[0]] + [b2 - a2 for a2, b2 in zip(times, times[1:])]
                ok = len(got) == len(want) and got[1:] == want[1:] and got[0] in (times[0], 0, 0.0)
            if not ok:
                raise Violation("C08.sink_books", f"{name}[{k!r}]: arrivals {got[:6]}, delivered at {want[:6]} "
                                                  f"({'absolute' if sink.absolute_arrivals else 'inter-arrival'})",
                                "C08.sink_books/arrivals-" + ("abs" if sink.absolute_arrivals else "inter"))
            if sink.first_arrival[k] != times[0] or sink.last_arrival[k] != times[-1]:
                raise Violation("C08.sink_books", f"{name}[{k!r}]: first/last arrival {sink.first_arrival[k]}/{sink.last_arrival[k]}, "
                                                  f"delivered {times[0]}/{times[-1]}", "C08.sink_books/first-last")
        if sink.rec_waits:
            if list(sink.waits[k]) != [r.now - r.snap[4] for r in rs] or list(sink.packet_sizes[k]) != [r.snap[3] for r in rs] \
                    or list(sink.packet_times[k]) != [r.snap[4] for r in rs]:
                raise Violation("C08.sink_books", f"{name}[{k!r}]: waits/sizes/times disagree with the delivered packets",
                                "C08.sink_books/waits")
    extra = [k for k in sink.packets_received if k not in groups and sink.packets_received[k]]
    if extra:
        raise Violation("C08.sink_books", f"{name}: counts for keys {extra} that received nothing", "C08.sink_books/extra")


def run_sink(case):
    """PacketSink alone in all four recording modes"""
    lab = Lab(clause="C08.no_exception")
    sink = PacketSink(lab.env, rec_arrivals=case["rec_arrivals"], absolute_arrivals=case["absolute"], rec_waits=case["rec_waits"],
                      rec_flow_ids=case["by_flow"])
    tap = lab.tap("sink", sink)
    pkts = lab.inject(tap, case["wl"], src_prefix="s")
    for p, created in zip(pkts, case["created"]):
        p.time = min(created, p.time)
    lab.run()
    check_sink_books(tap.recs, sink, "sink")
    classes = {"by flow" if case["by_flow"] else "by source", "absolute" if case["absolute"] else "inter-arrival"}
    return {"nontrivial": len(case["wl"]) >= 3 and len({w[1] for w in case["wl"]}) >= 2, "classes": sorted(classes)}


def run_generator(case):
    lab = Lab(clause="C08.no_exception")
    g = case
    st_ = {"a": 0, "s": 0}

    def arr():
        st_["a"] += 1
        return g["gaps"][st_["a"] - 1] if st_["a"] <= len(g["gaps"]) else 1e12

    def siz():
        st_["s"] += 1
        return g["sizes"][(st_["s"] - 1) % len(g["sizes"])]
    gen = DistPacketGenerator(lab.env, g["eid"], arr, siz, initial_delay=g["d0"], flow_id=g["flow"])
    tap = lab.tap("out")
    gen.out = tap
    lab.run(until=1e9)
    check_generator(tap.recs, g, g["eid"], g["flow"])
    if gen.packets_send != len(tap.recs):
        raise Violation("C08.generator", f"packets_send={gen.packets_send}, emitted {len(tap.recs)}", "C08.generator/counter")
    classes = set()
    if any(x == 0 for x in g["gaps"]):
        classes.add("zero inter-arrival")
    if any(isinstance(x, float) and x not in (0.5, 0.25, 1.0, 2.0) for x in g["gaps"]):
        classes.add("decimal floats (left fold matters)")
    return {"nontrivial": len(g["gaps"]) >= 3, "classes": sorted(classes)}


# -------------------------------------------------------------------------------------------------- strategies
def elem_spec(types=ELEMENT_TYPES):
    def build(t):
        base = {"type": st.just(t), "rate": st.sampled_from([8192, 8192 * 4, 1e5])}
        if t == "port":
            base.update(qlimit=st.sampled_from([None, 2, 4, 3000]), bytes=st.booleans())
            return st.fixed_dictionaries(base).map(lambda d: dict(d, bytes=d["bytes"] and (d["qlimit"] or 0) > 100))
        if t == "port0":
            base.update(qlimit=st.sampled_from([None, 3, 5000]), bytes=st.just(False))
        if t in ("wire", "wire_loss"):
            base.update(delay=st.sampled_from([0, 0.125, 1, 0.01]))
        if t == "tb":
            base.update(bucket=st.sampled_from([500, 1500, 4000]), peak=st.sampled_from([None, 8192 * 16]))
        if t in ("WFQ", "VC", "DRR", "fairswitch"):
            base.update(strcls=st.sampled_from([0, 0, 1, 2]))
        if t == "VC":
            base.update(vt0=st.booleans())
        if t == "randomdemux":
            base.update(nouts=st.integers(1, 4), probs=st.sampled_from([[0.25, 0.25, 0.25, 0.25], [0.3, 0.3, 0.1, 0.1], [1, 2, 3, 4],
                                                                        [0.125, 0.25, 0.125, 0.0625], [5, 1, 1, 1]]))
        if t in ("fibdemux", "fairswitch"):
            base.update(ends=st.sampled_from([0, 0, 1, 2, 3]))
            base.update(refib=st.sampled_from([0, 0, 1, 129, 513, 1025, 2049]), refib_inplace=st.booleans())
        if t in ("flowdemux", "fibdemux", "simpleswitch", "fairswitch"):
            base.update(nouts=st.integers(1, 4), default=st.booleans(), qlimit=st.sampled_from([2, 4, 50]),
                        server=st.sampled_from(["WFQ", "DRR", "VirtualClock"]))
        return st.fixed_dictionaries(base)
    return st.sampled_from(list(types)).flatmap(build)


def element_strategy(tier):
    big = tier == "thorough"
    wl = netlab.workload([0, 1, 2, 3], n_max=60 if big else 30, exact=True, min_size=3,
                         sizes=st.sampled_from([64, 128, 512, 1024, 1500, 3000, 0, 64, 0]))      # zero-length packets are legal
    return st.fixed_dictionaries({"elem": elem_spec(), "wl": wl, "seed": st.integers(0, 10 ** 6),
                                  "wl2": kgen.weighted([(st.none(), 2), (wl, 1)])})


CHAINABLE = ["port", "port0", "red", "wire", "wire_loss", "tb", "trtb", "SP", "WFQ", "VC", "DRR", "RR", "WRR"]


def gen_strategy():
    return st.fixed_dictionaries({
        "gaps": st.lists(st.sampled_from([0, 0, 0.125, 0.5, 1, 0.1, 0.3, 0.01, 0.0625, 0.3333333]), min_size=1, max_size=12),
        "sizes": st.lists(st.sampled_from([64, 128, 512, 1024, 1500]), min_size=1, max_size=4),
        "d0": st.sampled_from([0, 0, 0.5, 0.1, 2])})


def pipeline_strategy(tier):
    big = tier == "thorough"
    chain = st.lists(elem_spec(CHAINABLE), min_size=0, max_size=4 if big else 3)
    branch = st.lists(elem_spec(CHAINABLE), min_size=0, max_size=2)
    return st.fixed_dictionaries({
        "gens": st.lists(gen_strategy(), min_size=1, max_size=4),
        "chain": chain,
        "fanout": st.one_of(st.none(), st.lists(branch, min_size=1, max_size=3)),
        "split": st.booleans(), "by_src": st.booleans(), "inter": st.booleans(),
        "finite": st.booleans(),
        "monitor": st.one_of(st.none(), st.lists(st.sampled_from([0.25, 0.5, 1, 0.125 + 1 / 4096, 2]), min_size=1, max_size=4)),
        "seed": st.integers(0, 10 ** 6)})


def sink_strategy(tier):
    wl = netlab.workload([0, 1, 2], n_max=25, exact=False, min_size=1, late=False)
    return wl.flatmap(lambda w: st.fixed_dictionaries({
        "wl": st.just(w), "created": st.lists(st.sampled_from([0, 0.1, 0.5, 2.0]), min_size=len(w), max_size=len(w)),
        "rec_arrivals": st.sampled_from([True, True, False]), "absolute": st.booleans(), "rec_waits": st.sampled_from([True, True, False]),
        "by_flow": st.booleans()}))


def generator_strategy(tier):
    return st.fixed_dictionaries({
        "gaps": st.lists(st.sampled_from([0, 0.125, 0.5, 1, 0.1, 0.2, 0.3, 0.7, 2, 1e-3, 0.0625, 0.3333333, 1.0000001, 0.12345]),
                         min_size=1, max_size=30),
        "sizes": st.lists(st.integers(1, 3000), min_size=1, max_size=6),
        "d0": st.sampled_from([0, 0.5, 0.1, 2, 0.3]), "flow": st.integers(0, 5), "eid": st.sampled_from(["g", "src-1", "Flow_3"])})


PROP = Property(
    "C08",
    rule=("(elements) each element type (Port rate>0/rate 0, REDPort, Wire, lossy Wire, TokenBucket, TwoRateTokenBucket, SP, WFQ, "
          "VC, DRR, RR, WRR, FlowDemux, FIBDemux, SimplePacketSwitch, FairPacketSwitch) between taps, generated workloads over "
          "4 flows with same-instant bursts, early/late injection, seeded randomness. Oracle: after every kernel step in >= out + "
          "counted drops + no-route; at agenda exhaustion nothing is held (a lossy wire may have lost); every packet leaving is "
          "the very object that entered, once, with id/flow/src/size/time/payload unchanged, on the output the rule names; "
          "per-flow order kept; no exception. (pipelines) 1-4 DistPacketGenerators -> chain of 0-4 elements -> optional "
          "FlowDemux fan-out into sub-chains -> PacketSinks, optional splitter copy: the same per-element clauses, plus generated "
          "== delivered + discarded by documented rules, nothing reaches two sinks or a wrong sink, splitter copies equal but "
          "distinct. (generator) packet n has id n, the n-th size, src/flow as given, and leaves at the left-fold partial sum "
          "d0+a1+...+an (exact ==). (sink) PacketSink in all recording modes: counts, bytes, arrivals (absolute/inter), waits, "
          "sizes, times, first/last arrival keyed by flow or source equal what the tap delivered. Non-trivial (elements/pipelines) "
          "= >=2 flows, a same-instant burst, and queueing or a discard actually happened."),
    facets=[
        Facet("elements", element_strategy, run_element, quick=4000, thorough=12000,
              essential=ELEMENT_TYPES + ["counted drop", "wire loss", "no route", "queued or delayed",
                                             "twin element in the same environment", "forwarding table moved between two packets"]),
        Facet("pipelines", pipeline_strategy, run_pipeline, quick=1200, thorough=6000,
              essential=["fan-in", "fan-out", "splitter", "counted drop", "depth 3"]),
        Facet("generator", generator_strategy, run_generator, quick=400, thorough=2000,
              essential=["zero inter-arrival", "decimal floats (left fold matters)"]),
        Facet("sink", sink_strategy, run_sink, quick=400, thorough=2000, essential=["by flow", "by source", "absolute", "inter-arrival"]),
    ],
    assumptions=["wire loss is the only uncounted discard; its amount is not judged here (C10 does)",
                 "the first inter-arrival sample of a PacketSink may be the arrival time itself or 0"],
)
