"""C09 - a port serialises at its line rate and tail-drops exactly at its limit; RED (DESIGN 4/C09)."""
import random as pyrandom
from fractions import Fraction
from math import inf

from hypothesis import strategies as st

from onl.netdev import Port, PortMonitor
from onl.netdev.red_port import REDPort
import onl.netdev.red_port as red_mod

from ..core import kgen, netlab
from ..core.common import HarnessError, Violation, crash
from ..core.netlab import F, Lab
from ..runner import Facet, Property


class Entry:
    """device in front of the port: records the arrival and whether the port counted it as dropped"""

    def __init__(self, lab, port):
        self.lab = lab
        self.port = port
        self.recs = []          # (Rec, dropped bool, held_bytes_before, exits_before)

    def put(self, pkt):
        lab, port = self.lab, self.port
        lab.seq += 1
        r = netlab.Rec(lab.seq, lab.env.now, pkt, lab.steps)
        d0, r0 = port.packets_dropped, port.packets_received
        port.put(pkt)
        dd, dr = port.packets_dropped - d0, port.packets_received - r0
        if dr != 1 or dd not in (0, 1):
            lab.flag("C09.counters", f"one arrival changed packets_received by {dr}, packets_dropped by {dd}", "C09.counters")
        self.recs.append((r, dd == 1))


def build(case, lab, cls=Port, **extra):
    env = lab.env
    out = lab.tap("out")
    if cls is Port:
        port = Port(env, case["rate"], case["qlimit"], case["limit_bytes"], case["eid"])
    else:
        port = cls(env, case["rate"], element_id=case["eid"], qlimit=case["qlimit"], limit_bytes=case["limit_bytes"], **extra)
    port.out = out
    entry = Entry(lab, port)
    return port, entry, out


def analyse(case, lab, port, entry, out, classes, exact):
    """reference FIFO server driven by the observed interleaving of arrival and departure taps"""
    rate = case["rate"]
    qlimit, by_bytes = case["qlimit"], case["limit_bytes"]
    tol = (lambda a, b: a == b) if exact else (lambda a, b: abs(a - b) <= 1e-12 * max(1, abs(a), abs(b)))
    events = [("in", r.seq, r, dropped) for r, dropped in entry.recs] + [("out", r.seq, r, None) for r in out.recs]
    events.sort(key=lambda e: e[1])
    accepted = []       # dict per accepted packet
    held = []           # accepted, not yet exited (FIFO)
    nexit = 0
    prev_dep = None
    for kind, _, r, dropped in events:
        t = F(r.now)
        if kind == "out":
            if not held or held[0]["pkt"] is not r.pkt:
                raise Violation("C09.fifo", f"packet {r.snap[0]} left at t={r.now} but the oldest held packet is "
                                            f"{held[0]['rec'].snap[0] if held else None}", "C09.fifo")
            h = held.pop(0)
            h["dep"] = t
            if rate > 0:
                want = h["start"] + Fraction(8 * h["size"]) / F(rate)
            else:
                want = h["arr"]
            if not tol(float(want), r.now) if not exact else want != t:
                raise Violation("C09.service_law", f"packet {r.snap[0]} (size {h['size']}, arrived {float(h['arr'])!r}, previous "
                                                   f"departure {prev_dep and float(prev_dep)!r}) left at {r.now!r}, expected "
                                                   f"{float(want)!r} at rate {rate}", "C09.service_law")
            if r.snap != h["rec"].snap:
                raise Violation("C08.fields", f"fields changed inside the port: {h['rec'].snap} -> {r.snap}", "C08.fields/port")
            eid = case["eid"]
            if r.perhop.get(eid, "missing") != h["rec"].now:
                raise Violation("C09.hop_stamp", f"packet {r.snap[0]} perhop_time[{eid!r}]={r.perhop.get(eid, 'missing')!r}, "
                                                 f"arrived at this port at {h['rec'].now!r}", "C09.hop_stamp")
            prev_dep = t
            # the next held packet starts now (if it was already there)
            if held:
                held[0]["start"] = max(held[0]["arr"], t)
            continue
        size = r.snap[3]
        held_bytes = sum(h["size"] for h in held)
        # ---- drop law
        if qlimit is None:
            must = False
            amb = False
        elif by_bytes:
            must = held_bytes + size > qlimit
            amb = False
            if held_bytes + size in (qlimit, qlimit + 1):
                classes.add("byte decision within 1 of the limit")
        else:
            if not exact:
                must, amb = None, True
            else:
                waiting_sure = sum(1 for h in held if h["start"] is None or h["start"] > t)
                amb_n = sum(1 for h in held if h["start"] is not None and h["start"] == t)
                if waiting_sure >= qlimit - 1:
                    must, amb = True, False
                elif waiting_sure + amb_n < qlimit - 1:
                    must, amb = False, False
                else:
                    must, amb = None, True
                if not amb and abs(waiting_sure - (qlimit - 1)) <= 1:
                    classes.add("packet decision within 1 of the limit")
        if amb:
            classes.add("ambiguous same-instant decision")
        elif must != dropped:
            what = "bytes held %d + size %d vs qlimit %s" % (held_bytes, size, qlimit) if by_bytes or qlimit is None else \
                "%d packets waiting vs qlimit-1=%d" % (waiting_sure, qlimit - 1)
            raise Violation("C09.drop_law", f"packet {r.snap[0]} at t={r.now!r} was {'dropped' if dropped else 'accepted'} "
                                            f"but must be {'dropped' if must else 'accepted'} ({what})",
                            "C09.drop_law/" + ("none" if qlimit is None else "bytes" if by_bytes else "packets")
                            + ("/missed" if must else "/spurious"))
        if dropped:
            classes.add("refused")
            continue
        classes.add("accepted")
        h = {"pkt": r.pkt, "rec": r, "arr": t, "size": size, "start": None, "dep": None}
        if not held:
            h["start"] = t if prev_dep is None else max(t, prev_dep)
        else:
            classes.add("queued behind another packet")
        held.append(h)
        accepted.append(h)
        if qlimit is not None:
            occ = sum(x["size"] for x in held) if by_bytes else len(held)
            if occ > qlimit:
                raise Violation("C09.occupancy", f"occupancy {occ} exceeds the limit {qlimit}", "C09.occupancy")
    if held:
        raise Violation("C08.quiescence", f"{len(held)} accepted packet(s) never left the port", "C08.quiescence/port")
    n_in = len(entry.recs)
    n_drop = sum(1 for _, d in entry.recs if d)
    if port.packets_received != n_in or port.packets_dropped != n_drop or len(accepted) + n_drop != n_in:
        raise Violation("C09.counters", f"received={port.packets_received} dropped={port.packets_dropped}, observed {n_in} "
                                        f"arrivals, {n_drop} refused, {len(accepted)} accepted", "C09.counters/total")
    return accepted


def run_port(case):
    lab = Lab(clause="C09.no_exception")
    port, entry, out = build(case, lab)
    pkts = lab.inject(entry, case["wl"])
    classes = set()
    # a packet may have been at this very hop before (a tail-dropped object that its sender retransmits, a route that crosses the
    # port twice) or at a port with the same element id: it then arrives with an old stamp under this id
    for pkt, old in zip(pkts, case.get("stale_stamps", [])):
        if old is not None:
            pkt.perhop_time[case["eid"]] = old
            pkt.perhop_time["elsewhere"] = old
            classes.add("packet arrives with an earlier stamp of this hop")

    def occupancy(handoff=False):
        want = sum(r.snap[3] for r, d in entry.recs if not d) - sum(r.snap[3] for r in out.recs)
        if port.byte_size != want:
            lab.flag("C09.honest_occupancy", f"byte_size={port.byte_size} but {want} bytes are held (t={lab.env.now}"
                                             f"{', read by the next hop while a packet is handed to it' if handoff else ''})",
                     "C09.honest_occupancy" + ("/rate0" if case["rate"] == 0 else "") + ("/handoff" if handoff else ""))
    lab.after_step.append(occupancy)
    # the next hop may read the port's occupancy the moment a packet is handed to it: that packet is not held any more
    out.on_put = lambda rec: occupancy(True)
    states = []
    lab.after_step.append(lambda: states.append((lab.env.now, port.byte_size, len(port.store.items), port.packets_received,
                                                 port.packets_dropped)))
    lab.run()
    analyse(case, lab, port, entry, out, classes, case["exact"])
    if case.get("also_detached"):
        # the same arrivals at a port that has no next hop (out = None): transmitted packets leave the simulation; handing a packet
        # on schedules nothing, so clock, occupancy, queue length and counters must agree with the first run after every step
        lab2 = Lab(clause="C09.no_exception")
        port2, entry2, _ = build(case, lab2)
        port2.out = None
        lab2.inject(entry2, case["wl"])
        states2 = []
        lab2.after_step.append(lambda: states2.append((lab2.env.now, port2.byte_size, len(port2.store.items), port2.packets_received,
                                                       port2.packets_dropped)))
        lab2.run()
        if states != states2:
            i = next((i for i, (a, b) in enumerate(zip(states, states2)) if a != b), min(len(states), len(states2)))
            raise Violation("C09.honest_occupancy", f"without a next hop, step {i + 1}: (now, byte_size, waiting, received, dropped) = "
                                                    f"{states2[i:i + 1]}, with a next hop {states[i:i + 1]}", "C09.honest_occupancy/no-next-hop")
        classes.add("same arrivals without a next hop")
    nt = "accepted" in classes and "refused" in classes and \
        ("byte decision within 1 of the limit" in classes or "packet decision within 1 of the limit" in classes)
    if case["rate"] == 0:
        classes.add("rate 0")
    if case["qlimit"] is None:
        classes.add("no limit")
        nt = "queued behind another packet" in classes
    return {"nontrivial": nt, "classes": sorted(classes)}


def port_lattice(tier, shard, nshards):
    """bounded-exhaustive threshold lattice: rate 8*64 (a 64-byte packet takes 1 s), every arrival sequence of up to 5 (thorough 6)
    packets over the instants {0, 0.5 (during the first transmission), 1 (exactly its end), 1 late, 2.5}, for every packet limit
    1..4 and the byte limits 64, 128, 192 with sizes 64"""
    import itertools
    slots = [(0, 0), (0.5, 0), (1, 0), (1, 2), (2.5, 0)]
    maxlen = 6 if tier == "thorough" else 5
    i = 0
    for ln in range(2, maxlen + 1):
        for combo in itertools.combinations_with_replacement(range(len(slots)), ln):
            wl = [[slots[c][0], j % 2, 64, None, slots[c][1]] for j, c in enumerate(combo)]
            for by_bytes, q in [(False, 1), (False, 2), (False, 3), (False, 4), (True, 64), (True, 128), (True, 192)]:
                if i % nshards == shard:
                    yield {"exact": True, "rate": 512, "wl": wl, "eid": "lat", "limit_bytes": by_bytes, "qlimit": q}
                i += 1


def port_strategy(tier):
    big = tier == "thorough"

    def build(exact):
        rate = kgen.weighted([(netlab.exact_rate(3, 16), 6), (st.just(0), 1)]) if exact else \
            st.sampled_from([1000.0, 9600, 1e6, 12345.678, 3e5, 0.0, 7777, 3e6, 2.4e10])
        sizes = st.sampled_from([1, 2, 3, 5, 10, 100, 200, 500, 1000, 1500, 0, 1, 0])      # zero-length packets are legal
        wl = netlab.workload([0, 1, 2], n_max=60 if big else 30, exact=exact, sizes=sizes, min_size=3)
        lim = kgen.weighted([(st.tuples(st.just(True), st.sampled_from([1000, 1500, 2000, 3000, 600, 100, 10, 5, 4, 2, 1])), 4),
                             (st.tuples(st.just(False), st.integers(1, 6)), 4),
                             (st.tuples(st.booleans(), st.none()), 1)])
        return st.fixed_dictionaries({
            "exact": st.just(exact), "rate": rate, "wl": wl,
            "eid": st.sampled_from(["p0", "sw.3", "x"]),
            "stale_stamps": st.lists(st.sampled_from([None, None, None, 0, 0.5, 1000]), max_size=12),
            "also_detached": st.sampled_from([False, False, True]),
        }).flatmap(lambda d: lim.map(lambda l: dict(d, limit_bytes=l[0], qlimit=l[1])))
    return kgen.weighted([(build(True), 4), (build(False), 1)])


# ------------------------------------------------------------------------------------------- PortMonitor
def run_monitor(case):
    lab = Lab(clause="C09.no_exception")
    port, entry, out = build(case, lab)
    lab.inject(entry, case["wl"])
    samples = []
    script = list(case["sample_gaps"])

    def dist():
        if script:
            return script.pop(0)
        return 1e9
    mon = PortMonitor(lab.env, port, dist, pkt_in_service_included=case["included"])
    lab.env.process(mon.run())
    classes = set()
    horizon = case["wl"][-1][0] + 64
    lab.run(until=horizon)
    accepted = analyse_partial(case, entry, out)
    # sample instants
    t = F(0)
    times = []
    for g in case["sample_gaps"]:
        t += F(g)
        times.append(t)
    times = [x for x in times if x < horizon]
    if len(mon.sizes) != len(times) or len(mon.sizes_byte) != len(times):
        raise Violation("C09.monitor", f"{len(mon.sizes)} samples recorded, {len(times)} sample instants passed", "C09.monitor/count")
    busy_seen = False
    for i, ts in enumerate(times):
        # skip samples coinciding with any arrival / start / departure (set-valued, DESIGN 3.5)
        if any(ts in (h["arr"], h["start"], h["dep"]) for h in accepted):
            # set-valued (DESIGN 3.5): the sample may have been taken at any point of the instant's event sequence
            # [departure of the packet in service] -> [start of the next one], with the instant's arrivals interleaved
            base = [h for h in accepted if h["arr"] < ts and (h["dep"] is None or h["dep"] > ts)]
            departing = [h for h in accepted if h["dep"] == ts]
            arriving = [h for h in accepted if h["arr"] == ts]
            cands = set()
            for stage in (0, 1, 2):
                for na in range(len(arriving) + 1):
                    held = list(base) + arriving[:na] + (departing if stage == 0 else [])
                    serving = [h for h in held if h["start"] is not None and (h["start"] < ts or (h["start"] == ts and stage == 2))
                               and (h["dep"] is None or h["dep"] > ts or (h["dep"] == ts and stage == 0))]
                    serving = serving[:1]
                    b = sum(h["size"] for h in held)
                    w = len(held) - len(serving)
                    if case["included"]:
                        cands.add((b, w + len(serving)))
                    else:
                        cands.add((b - sum(h["size"] for h in serving), w))
                    # transient of the same instant: the next packet has been taken from the queue but its transmission has
                    # not been marked yet (it is counted in the bytes, in neither packet count)
                    starting = [h for h in held if h["start"] == ts]
                    if starting and stage >= 1 or (starting and not departing):
                        cands.add((b, len(held) - 1))
            if (mon.sizes_byte[i], mon.sizes[i]) not in cands:
                raise Violation("C09.monitor", f"sample #{i} at t={float(ts)} (an instant with arrivals/departures) is bytes="
                                               f"{mon.sizes_byte[i]} packets={mon.sizes[i]}; no point of that instant gives it "
                                               f"(possible: {sorted(cands)})",
                                "C09.monitor/coincident/" + ("included" if case["included"] else "excluded"))
            classes.add("coincident sample judged set-valued")
            continue
        held = [h for h in accepted if h["arr"] < ts and (h["dep"] is None or h["dep"] > ts)]
        serving = [h for h in held if h["start"] is not None and h["start"] < ts]
        if len(serving) > 1:
            raise Violation("C09.service_law", f"two packets in transmission at t={float(ts)}", "C09.service_law/overlap")
        bytes_held = sum(h["size"] for h in held)
        waiting = len(held) - len(serving)
        if case["included"]:
            want_b, want_n = bytes_held, waiting + len(serving)
        else:
            want_b, want_n = bytes_held - sum(h["size"] for h in serving), waiting
        if serving:
            busy_seen = True
            classes.add("sample while transmitting")
        if waiting:
            classes.add("sample with a queue")
        if mon.sizes_byte[i] != want_b:
            raise Violation("C09.monitor", f"byte sample #{i} at t={float(ts)} is {mon.sizes_byte[i]}, bytes held "
                                           f"{'incl.' if case['included'] else 'excl.'} packet in service = {want_b}",
                            "C09.monitor/bytes/" + ("included" if case["included"] else "excluded"))
        if mon.sizes[i] != want_n:
            raise Violation("C09.monitor", f"packet sample #{i} at t={float(ts)} is {mon.sizes[i]}, expected {want_n}",
                            "C09.monitor/packets/" + ("included" if case["included"] else "excluded"))
    return {"nontrivial": busy_seen and "sample with a queue" in classes, "classes": sorted(classes)}


def analyse_partial(case, entry, out):
    """timeline of accepted packets (arr/start/dep) from the taps, for runs cut at a horizon"""
    acc = []
    outs = list(out.recs)
    prev = None
    k = 0
    for r, dropped in entry.recs:
        if dropped:
            continue
        h = {"arr": F(r.now), "size": r.snap[3], "start": None, "dep": None}
        acc.append(h)
    for i, h in enumerate(acc):
        h["start"] = h["arr"] if i == 0 or acc[i - 1]["dep"] is None and False else None
    for i, h in enumerate(acc):
        if i == 0:
            h["start"] = h["arr"]
        elif acc[i - 1]["dep"] is not None:
            h["start"] = max(h["arr"], acc[i - 1]["dep"])
        else:
            h["start"] = None
        if i < len(outs):
            h["dep"] = F(outs[i].now)
    return acc


def monitor_strategy(tier):
    sizes = st.sampled_from([100, 200, 500, 1000, 1500, 64, 128, 256, 512, 1024])
    wl = netlab.workload([0, 1], n_max=25, exact=True, sizes=sizes, min_size=4, late=False)
    gaps = st.lists(st.sampled_from([1 / 4096, 3 / 4096, 1 / 8 + 1 / 4096, 0.5 + 1 / 4096, 1 + 3 / 4096, 1 / 64, 2 + 1 / 4096,
                                     1 / 8, 1 / 4, 0.5, 1, 1 / 16]), min_size=3, max_size=25)
    return st.fixed_dictionaries({
        "exact": st.just(True), "rate": netlab.exact_rate(3, 12), "wl": wl, "eid": st.just("pm"),
        "limit_bytes": st.just(True), "qlimit": st.sampled_from([None, 5000, 100000]),
        "included": st.booleans(), "sample_gaps": gaps})


# ------------------------------------------------------------------------------------------- RED
class ConstRandom:
    def __init__(self, u):
        self.u = u
        self.calls = 0

    def uniform(self, a, b):
        self.calls += 1
        return self.u


def run_red(case):
    lab = Lab(clause="C09.no_exception")
    script = ConstRandom(case["u"])
    old = red_mod.random
    red_mod.random = script
    try:
        port, entry, out = build(case, lab, cls=REDPort, max_threshold=case["max_th"], min_threshold=case["min_th"],
                                 max_probability=case["max_p"], weight_factor=case["w"])
        lab.inject(entry, case["wl"])
        lab.run()
    finally:
        red_mod.random = old
    eps = Fraction(1, 10 ** 9)
    alpha = Fraction(1, 2 ** case["w"])
    lo = hi = F(0)      # the reference average is an interval: same-instant queue-length ambiguity widens it
    lo_f = hi_f = 0.0   # the statement's recurrence evaluated in floating point: where it is exact, no dead band is needed
    af = 2.0 ** (-case["w"])
    u = F(case["u"])
    held = []           # accepted-not-exited records
    oi = 0
    outs = out.recs
    regions = set()
    amb = 0
    for r, dropped in entry.recs:
        while oi < len(outs) and outs[oi].seq < r.seq:
            held.pop(0)
            oi += 1
        t = F(r.now)
        if case["limit_bytes"]:
            q_lo = q_hi = sum(h.snap[3] for h in held)
        elif not held:
            q_lo = q_hi = 0
        else:
            # packets waiting, not the one in transmission: the head of `held` is in transmission unless it became
            # eligible at this very instant (then the port may not have taken it from its queue yet)
            q_lo = len(held) - 1
            q_hi = len(held) if F(held[0].now) == t or (oi > 0 and F(outs[oi - 1].now) == t) else len(held) - 1
        lo = lo * (1 - alpha) + F(q_lo) * alpha
        hi = hi * (1 - alpha) + F(q_hi) * alpha
        lo_f = lo_f * (1 - af) + q_lo * af
        hi_f = hi_f * (1 - af) + q_hi * af
        band = 0 if (F(lo_f) == lo and F(hi_f) == hi) else eps
        if band == 0 and (lo == F(case["qlimit"]) or lo == F(case["min_th"]) or lo == F(case["max_th"])):
            regions.add("average exactly on a threshold")
        decisions = red_decision(lo, u, case, band, regions) | red_decision(hi, u, case, band, regions)
        if lo != hi:
            amb += 1
        if dropped not in decisions:
            raise Violation("C09.red", f"arrival {r.snap[0]} at t={r.now}: average in [{float(lo):.6f}, {float(hi):.6f}] (min "
                                       f"{case['min_th']}, max {case['max_th']}, qlimit {case['qlimit']}, max_p {case['max_p']}, "
                                       f"u={case['u']}) was {'dropped' if dropped else 'accepted'}",
                            "C09.red/" + ("spurious" if dropped else "missed"))
        if not dropped:
            held.append(r)
    avg = lo
    classes = set("region " + x for x in regions)
    if amb:
        classes.add("ambiguous queue length")
    if not (float(lo) - 1e-6 * max(1.0, float(hi)) <= float(port.average_queue_size) <= float(hi) + 1e-6 * max(1.0, float(hi))):
        raise Violation("C09.red_average", f"average_queue_size={port.average_queue_size}, reference EWMA in [{float(lo)}, {float(hi)}]",
                        "C09.red_average")
    nt = len(regions) >= 3
    return {"nontrivial": nt, "classes": sorted(classes)}


def red_decision(a, u, case, eps, regions):
    """set of admissible outcomes {True=dropped, False=accepted} for average a and constant draw u"""
    mn, mx, ql, mp = F(case["min_th"]), F(case["max_th"]), F(case["qlimit"]), F(case["max_p"])
    out = set()
    near = lambda x, y: eps > 0 and abs(x - y) <= eps        # thresholds: no dead band where the float average is exact
    near_p = lambda x, y: abs(x - y) <= Fraction(1, 10 ** 9)   # the drop probability itself is always a float quotient
    if a < mn:
        regions.add("below min")
        out.add(False)
        if near(a, mn):
            out.add(u <= 0)
        return out
    if a >= ql:
        regions.add("at or above qlimit")
        out.add(True)
        if near(a, ql):
            out.add(u <= mp)
        return out
    if a >= mx:
        regions.add("between max and qlimit")
        p = mp
    else:
        regions.add("between min and max")
        p = (a - mn) / (mx - mn) * mp
    if near_p(u, p):
        return {True, False}
    out.add(u <= p)
    if near(a, mx) or near(a, mn):
        out |= {True, False} if near_p(u, mp) else out
    return out


def red_strategy(tier):
    sizes = st.sampled_from([100, 500, 1000])

    def build(by_bytes):
        if by_bytes:
            th = st.sampled_from([(500, 2000, 4000), (1000, 3000, 3000), (100, 1500, 8000), (2000, 2500, 5000)])
        else:
            th = st.sampled_from([(1, 3, 5), (2, 4, 4), (1, 2, 8), (3, 6, 10), (0.5, 2.5, 6)])
        wl = netlab.workload([0, 1], n_max=60, exact=True, sizes=sizes, min_size=10, late=False)
        return th.flatmap(lambda t: st.fixed_dictionaries({
            "exact": st.just(True), "rate": netlab.exact_rate(3, 10), "wl": wl, "eid": st.just("red"),
            "limit_bytes": st.just(by_bytes), "qlimit": st.just(t[2]), "min_th": st.just(t[0]), "max_th": st.just(t[1]),
            "max_p": st.sampled_from([0.1, 0.5, 1.0, 0.25]), "w": st.integers(0, 4),
            "u": st.sampled_from([0.0, 0.05, 0.2, 0.3, 0.6, 0.9, 0.999])}))
    return kgen.weighted([(build(False), 2), (build(True), 1)])


PROP = Property(
    "C09",
    rule=("(port) Port(rate in exact domain 8*2^k | 0 | floats, qlimit None|bytes|packets, element_id) fed generated workloads "
          "(<=30/60 packets, sizes near the limits, same-instant bursts, early/late injection). Oracle: reference FIFO server in "
          "Fractions driven by the observed interleaving of arrival and departure taps: exit == max(arrival, previous exit) + "
          "8*size/rate (== in the exact domain, 1e-9 relative otherwise; immediate for rate 0), FIFO, same object and fields; "
          "byte limit: refused iff held+size > qlimit (both directions); packet limit: refused iff qlimit-1 packets waiting, "
          "with packets that start transmission at the very instant of the arrival counted either way (set-valued); never "
          "refused without limit; occupancy <= limit; packets_received == accepted + packets_dropped; byte_size == bytes "
          "held after every kernel step; perhop_time[element_id] == arrival instant. Non-trivial = >=1 accepted and >=1 "
          "refused unambiguous decision within one packet/byte of the limit (or queueing when unlimited). (monitor) "
          "PortMonitor samples at off-grid instants vs bytes/packets held with/without the packet in service. (red) REDPort with "
          "constant random draw u: reference EWMA in Fractions; accepted below min, dropped at/above qlimit, in between dropped "
          "iff u <= curve probability (1e-9 dead band); non-trivial = >=3 RED regions visited."),
    facets=[
        Facet("port", port_strategy, run_port, quick=1500, thorough=8000, exhaustive=port_lattice,
              essential=["accepted", "refused", "byte decision within 1 of the limit", "packet decision within 1 of the limit",
                         "rate 0", "no limit", "queued behind another packet", "packet arrives with an earlier stamp of this hop",
                         "same arrivals without a next hop"]),
        Facet("monitor", monitor_strategy, run_monitor, quick=1500, thorough=6000,
              essential=["sample while transmitting", "sample with a queue", "coincident sample judged set-valued"]),
        Facet("red", red_strategy, run_red, quick=600, thorough=4000,
              essential=["region below min", "region between min and max", "region at or above qlimit",
                         "region average exactly on a threshold"]),
    ],
    assumptions=["a tail drop is what the port counts in packets_dropped (cross-checked: a counted packet never leaves, an "
                 "uncounted one always does)", "RED draws are scripted constant (threshold level); frequencies are not judged"],
)
