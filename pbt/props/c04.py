"""C04 - interrupts reach a live process once, in issue order, ahead of ordinary events (DESIGN 4/C04)."""
from ..core import kdsl, kgen
from ..core.common import Violation
from ..runner import Facet, Property

WEIGHTS = {"timeout": 6, "wait": 2, "succeed": 2, "fail": 1, "join": 2, "spawn": 2, "interrupt": 7, "return": 1, "cbintr": 2}
VICTIM = {"timeout": 8, "wait": 3, "join": 2, "interrupt": 1, "spawn": 1, "wait_cond": 2}
ATTACK = {"timeout": 4, "interrupt": 8, "succeed": 2, "fail": 1, "spawn": 1, "cbintr": 3}


def strip(trace):
    log, final = trace
    return [e for e in log if e[3] != "interrupt-refused"], final


def run_case(case):
    res = kdsl.run_program(case)
    h = res.h
    classes = set()
    st = h.stats
    for k, name in [("intr_at_target_instant", "interrupt at target instant"), ("intr_multi_pending", ">=2 interrupts pending"),
                    ("intr_refused_dead", "interrupt of finished process"), ("intr_refused_self", "self interrupt"),
                    ("intr_before_start", "interrupt in spawn step"), ("rewait", "re-yield old target"),
                    ("old_target_fired_elsewhere", "old target fires while victim waits elsewhere"),
                    ("intr_from_callback", "interrupt issued by a plain callback"),
                    ("intr_delivered", "delivered"), ("intr_delivered_target_due_now", "delivered with target due now")]:
        if st.get(k):
            classes.add(name)
    if any(x.kind == "C" and x.abandoned for x in h.hevs.values()):
        classes.add("victim interrupted while waiting on a composite event")
    for P in res.interp.procs:
        if not P.alive and P.intr_fifo:
            classes.add("victim ends with pending interrupts")
    # (d) metamorphic: a refused interrupt has no other effect
    refused = res.interp.refused
    if refused and res.ended == "exhausted":
        res2 = kdsl.run_program(case, skip=set(refused))
        if strip(kdsl.trace_of(res)) != strip(kdsl.trace_of(res2)):
            raise Violation("C04.refuse_no_effect", "trace differs from the same program without the refused interrupt(s)",
                            "C04.refuse_no_effect")
        classes.add("refusal metamorphic re-run")
    nt = bool(st.get("intr_at_target_instant")) and bool(st.get("old_target_fired_elsewhere"))
    return {"nontrivial": nt, "classes": sorted(classes)}


def strategy(tier):
    big = tier == "thorough"
    dl = [0, 1, 2, 0.5, 1, 0.1, 0.2, 0.3]
    ipol = kgen.policies(bias=["rewait"], dl=kgen.st.sampled_from(dl))
    pol = kgen.policies(bias=["continue", "continue"], dl=kgen.st.sampled_from(dl))
    trees = kgen.cond_trees(depth=2, max_arity=3, delays=kgen.st.sampled_from([0, 1, 2, 0.5, 1]))
    mixed = kgen.programs(WEIGHTS, max_bodies=5, max_instrs=8, max_start=8 if big else 6, max_nev=2, min_start=2,
                          pol=pol, ipol=ipol, delay_set=dl)
    roles = kgen.programs_roles([VICTIM, VICTIM, ATTACK, ATTACK, WEIGHTS], max_instrs=8, max_start=8 if big else 6,
                                max_nev=2, min_start=3, pol=pol, ipol=ipol, delay_set=[0, 1, 2, 0.5, 1], trees=trees)
    return kgen.weighted([(roles, 2), (mixed, 1)])


PROP = Property(
    "C04",
    rule=("Generated kernel programs biased to interrupts (victims x interrupters, interrupts issued at the instant the "
          "victim's target is due, several per instant, every reaction policy: ignore, re-yield old target, wait for "
          "something else, terminate, raise; interrupts of finished processes, self-interrupts, interrupts in the spawn "
          "step). Oracle from harness bookkeeping: delivery at issue time with the same cause and no ordinary occurrence "
          "in between; per-victim FIFO order; undelivered only if the victim ended first; every resumption is by the "
          "current target's own processing step (never a stale target) with that target's outcome; refused interrupts "
          "raise RuntimeError and a metamorphic re-run without them gives the same trace; a process runs its first "
          "statement in its own start step. Non-trivial = some interrupt was issued at the instant its victim's target "
          "was due AND some abandoned target later fired while the victim waited on something else."),
    facets=[Facet("programs", strategy, run_case, quick=3000, thorough=20000,
                  essential=["interrupt at target instant", ">=2 interrupts pending", "interrupt of finished process",
                             "self interrupt", "re-yield old target", "old target fires while victim waits elsewhere",
                             "victim ends with pending interrupts", "interrupt in spawn step",
                             "victim interrupted while waiting on a composite event", "interrupt issued by a plain callback"])],
    assumptions=["a process is 'finished' once its generator body has returned or raised (harness bookkeeping)"],
)
