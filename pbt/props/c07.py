"""C07 - containers and stores are bounded, conservative, ordered, never strand a request (DESIGN 4/C07).

History = groups of commands executed by actor processes at one instant (drained step by step) and clock advances.
Model (level / held items / pending queues) is updated only from *observed grants* (request events being triggered).
"""
from fractions import Fraction
from math import inf

from hypothesis import strategies as st

from onl.sim import Container, Environment, FilterStore, PriorityItem, PriorityStore, Store
from onl.sim.resources.base import Get, Put

from ..core import kgen
from ..core.common import HarnessError, Inconclusive, Violation, WatchdogTrip, crash
from ..runner import Facet, Property
from .c06 import HookEnv

FILTERS = {
    "any": lambda it: True,
    "even": lambda it: it % 2 == 0,
    "odd": lambda it: it % 2 == 1,
    "big": lambda it: it >= 6,
    "none": lambda it: False,
}


class Rec:
    def __init__(self, kind, n, arg):
        self.kind = kind        # 'put' | 'get'
        self.n = n
        self.arg = arg          # amount | item | filter name
        self.req = None
        self.state = "creating"
        self.blocked = False

    def __repr__(self):
        return f"{self.kind}{self.n}({self.arg},{self.state})"


class Machine:
    def __init__(self, case):
        self.case = case
        self.env = HookEnv()
        self.env.hook = self.on_schedule
        self.kind = case["cls"]
        cap = case["cap"]
        self.cap = inf if cap == "inf" else cap
        env = self.env
        if self.kind == "Container":
            self.obj = Container(env, capacity=self.cap, init=case["init"])
            self.level = Fraction(case["init"])
        else:
            self.obj = {"Store": Store, "PriorityStore": PriorityStore, "FilterStore": FilterStore}[self.kind](env, capacity=self.cap)
            self.items = []         # held items in insertion order (model)
        self.puts = []              # pending puts, oldest first
        self.gets = []
        self.all = []
        self.delivered = set()
        self.n_actors = 3
        self.mail = [env.event() for _ in range(self.n_actors)]
        self.procs = [env.process(self.actor(a)) for a in range(self.n_actors)]
        self.problems = []
        self.creating = None
        self.stats = {}
        self.next_item = 0
        self.steps = 0
        self.counter = 0
        self.drain()

    def bump(self, k):
        self.stats[k] = self.stats.get(k, 0) + 1

    def flag(self, clause, detail, sig=None):
        self.problems.append(Violation(clause, detail, sig or clause))

    # ------------------------------------------------------------------ observation
    def on_schedule(self, event):
        if not isinstance(event, (Put, Get)):
            return
        r = next((x for x in self.puts + self.gets if x.req is event), None)
        if r is None and self.creating is not None and self.creating.req is None:
            r = self.creating
            r.req = event
        if r is None:
            self.flag("C07.model", f"unknown request granted: {event}", "C07.model/unknown-grant")
            return
        if r.state not in ("creating", "pending"):
            self.flag("C07.grant_once", f"{r} granted although {r.state}", "C07.grant_once")
            return
        queue = self.puts if r.kind == "put" else self.gets
        older = [x for x in queue if x is not r and x.n < r.n]
        if r.kind == "put":
            if older:
                self.flag("C07.fcfs_put", f"{r} granted while older {older[0]} still pending", "C07.fcfs_put/" + self.kind)
            self.grant_put(r)
        else:
            if older and self.kind != "FilterStore":
                self.flag("C07.fcfs_get", f"{r} granted while older {older[0]} still pending", "C07.fcfs_get/" + self.kind)
            self.grant_get(r, event, older)
        if r.blocked:
            self.bump("blocked_then_granted")
        if r in queue:
            queue.remove(r)
        r.state = "granted"

    def grant_put(self, r):
        if self.kind == "Container":
            new = self.level + Fraction(r.arg)
            if new > self.cap:
                self.flag("C07.bounds", f"{r} granted: level {self.level} + {r.arg} exceeds capacity {self.cap}", "C07.bounds/over")
            if self.cap - self.level == r.arg:
                self.bump("amount==free space")
            self.level = new
        else:
            if len(self.items) >= self.cap:
                self.flag("C07.bounds", f"{r} accepted with {len(self.items)} items held (capacity {self.cap})", "C07.bounds/store")
            self.items.append(r.arg)

    def grant_get(self, r, event, older):
        if self.kind == "Container":
            new = self.level - Fraction(r.arg)
            if new < 0:
                self.flag("C07.bounds", f"{r} granted: level {self.level} - {r.arg} < 0", "C07.bounds/under")
            if self.level == r.arg:
                self.bump("amount==level")
            self.level = new
            return
        item = event.value
        key = self.ident(item)
        if key is None or key not in [self.ident(i) for i in self.items]:
            self.flag("C07.exactly_once", f"{r} received {item!r} which is not held (held: {self.items})",
                      "C07.exactly_once/" + ("again" if key in self.delivered else "invented"))
            return
        held = self.items
        if self.kind == "Store":
            if self.ident(held[0]) != key:
                self.flag("C07.order", f"{r} received {item!r}, oldest held is {held[0]!r}", "C07.order/Store")
        elif self.kind == "PriorityStore":
            if item.priority != min(i.priority for i in held):
                self.flag("C07.order", f"{r} received priority {item.priority}, smallest held is "
                                       f"{min(i.priority for i in held)}", "C07.order/PriorityStore")
            if sum(1 for i in held if i.priority == item.priority) >= 2:
                self.bump("equal priorities")
            if len(held) >= 6:
                self.bump(">=6 items held at a get")
        else:
            f = FILTERS[r.arg]
            first = next((i for i in held if f(i)), None)
            if first is None or first != item:
                self.flag("C07.order", f"{r} received {item!r}, first held match of its filter is {first!r}", "C07.order/FilterStore")
            for o in older:
                if any(FILTERS[o.arg](i) for i in held):
                    self.flag("C07.fcfs_get", f"{r} overtook older {o} although a held item matches the older filter",
                              "C07.fcfs_get/FilterStore")
            if older:
                self.bump("filter getter overtaken")
        for idx, i in enumerate(held):
            if self.ident(i) == key:
                del held[idx]
                break
        self.delivered.add(key)

    @staticmethod
    def ident(item):
        if isinstance(item, PriorityItem):
            return item.item
        if isinstance(item, int):
            return item
        return None

    # ------------------------------------------------------------------ actors
    def actor(self, a):
        while True:
            cmd = yield self.mail[a]
            self.mail[a] = self.env.event()
            try:
                self.execute(cmd)
            except (HarnessError, WatchdogTrip):
                raise
            except Violation as v:
                self.problems.append(v)
            except BaseException as e:
                self.problems.append(crash("C07.no_exception", e, f"during {cmd}"))

    def execute(self, cmd):
        op = cmd[0]
        obj = self.obj
        if op in ("put", "get"):
            r = Rec(op, self.counter, cmd[1])
            self.counter += 1
            bad = self.kind == "Container" and cmd[1] <= 0
            self.creating = r
            try:
                if op == "put":
                    arg = cmd[1]
                    if self.kind == "PriorityStore":
                        arg = PriorityItem(cmd[2], cmd[1])
                        r.arg = arg
                    req = obj.put(arg)
                elif self.kind == "Container":
                    req = obj.get(cmd[1])
                elif self.kind == "FilterStore":
                    req = obj.get(FILTERS[cmd[1]])
                else:
                    req = obj.get()
            except ValueError:
                if not bad:
                    raise
                self.bump("non-positive amount refused")
                if r.req is not None or r.state != "creating":
                    self.flag("C07.bad_amount", "refused request still had an effect", "C07.bad_amount/effect")
                return
            finally:
                self.creating = None
            if bad:
                self.flag("C07.bad_amount", f"{op}({cmd[1]}) accepted", "C07.bad_amount/accepted")
                return
            if r.req is None:
                r.req = req
            self.all.append(r)
            if r.state == "creating":
                r.state = "pending"
                r.blocked = True
                (self.puts if op == "put" else self.gets).append(r)
        elif op == "cancel":
            queue = self.puts if cmd[1] == "put" else self.gets
            if not queue:
                return
            r = queue[cmd[2] % len(queue)]
            head = queue[0] is r
            # the model forgets the request first: cancelling may grant successors before cancel() returns
            queue.remove(r)
            r.state = "cancelled"
            # a pending request is withdrawn either explicitly or by leaving its with-block (normally, e.g. after `yield req |
            # timeout` timed out) - alternately
            self.n_cancels = getattr(self, "n_cancels", 0) + 1
            if self.n_cancels % 2:
                r.req.cancel()
            else:
                r.req.__exit__(None, None, None)
                self.bump("pending request withdrawn by leaving its with-block")
            self.bump("cancel_head_with_successor" if head and queue else "cancel")
            if head and queue and self.satisfiable(queue[0]):
                self.bump("cancel head with satisfiable successor")
        else:
            raise HarnessError(f"bad op {cmd}")

    def satisfiable(self, r):
        if self.kind == "Container":
            if r.kind == "put":
                return self.cap - self.level >= r.arg
            return self.level >= r.arg
        if r.kind == "put":
            return len(self.items) < self.cap
        if self.kind == "FilterStore":
            return any(FILTERS[r.arg](i) for i in self.items)
        return bool(self.items)

    # ------------------------------------------------------------------ driving
    def check(self):
        if self.problems:
            raise self.problems[0]

    def step(self):
        self.steps += 1
        if self.steps > 30000:
            raise Inconclusive("step budget")
        try:
            self.env.step()
        except (HarnessError, WatchdogTrip):
            raise
        except BaseException as e:
            self.check()
            raise crash("C07.no_exception", e)
        self.check()
        obj = self.obj
        if self.kind == "Container":
            lv = obj.level
            if not (0 <= lv <= obj.capacity):
                raise Violation("C07.bounds", f"level {lv} outside [0, {obj.capacity}]", "C07.bounds/level")
            if Fraction(lv) != self.level:
                raise Violation("C07.conservation", f"level {lv} != init + granted puts - granted gets = {self.level}",
                                "C07.conservation")
        else:
            if len(obj.items) > obj.capacity:
                raise Violation("C07.bounds", f"{len(obj.items)} items, capacity {obj.capacity}", "C07.bounds/items")
            if sorted(self.ident(i) for i in obj.items) != sorted(self.ident(i) for i in self.items):
                raise Violation("C07.conservation", f"store holds {obj.items}, accepted-and-not-delivered are {self.items}",
                                "C07.conservation/items")

    def drain(self):
        env = self.env
        while env.peek() == env.now:
            self.step()
        self.check()
        if len(self.obj.put_queue) != len(self.puts) or len(self.obj.get_queue) != len(self.gets):
            raise Violation("C07.queues", f"pending queues {len(self.obj.put_queue)}/{len(self.obj.get_queue)} != model "
                                          f"{self.puts}/{self.gets}", "C07.queues")

    def about_to_advance(self):
        if self.puts and self.satisfiable(self.puts[0]):
            raise Violation("C07.stranded", f"oldest pending {self.puts[0]} is satisfiable ({self.describe()}) but waits",
                            "C07.stranded/put/" + self.kind)
        if self.kind == "FilterStore":
            for g in self.gets:
                if self.satisfiable(g):
                    raise Violation("C07.stranded", f"pending {g} has a matching held item ({self.describe()}) but waits",
                                    "C07.stranded/get/FilterStore")
        elif self.gets and self.satisfiable(self.gets[0]):
            raise Violation("C07.stranded", f"oldest pending {self.gets[0]} is satisfiable ({self.describe()}) but waits",
                            "C07.stranded/get/" + self.kind)

    def describe(self):
        if self.kind == "Container":
            return f"level {self.level} of {self.cap}"
        return f"holding {self.items} of {self.cap}"

    def run(self):
        rr = 0
        for g in self.case["groups"]:
            if g and g[0] == "adv":
                self.about_to_advance()
                self.env.run(until=self.env.now + g[1])
                self.drain()
                continue
            kinds = set()
            for cmd in g[:self.n_actors]:
                cmd = list(cmd)
                if cmd[0] == "put" and self.kind != "Container":
                    cmd[1] = self.next_item
                    self.next_item += 1
                kinds.add(cmd[0])
                self.mail[rr % self.n_actors].succeed(cmd)
                rr += 1
                if rr % self.n_actors == 0:
                    self.drain()
            if {"put", "get"} <= kinds:
                self.bump("put and get at one instant")
            self.drain()
        self.about_to_advance()
        if self.env.peek() != inf:
            raise Violation("C07.quiescent", "events left after the history drained", "C07.quiescent")
        # every accepted item is held or was delivered exactly once
        if self.kind != "Container":
            for r in self.all:
                if r.kind == "put" and r.state == "granted":
                    k = self.ident(r.arg)
                    held = k in [self.ident(i) for i in self.items]
                    if held == (k in self.delivered):
                        raise Violation("C07.exactly_once", f"item {k}: held={held}, delivered={k in self.delivered}",
                                        "C07.exactly_once/end")


def run_case(case):
    m = Machine(case)
    m.run()
    s = m.stats
    nt = bool(s.get("blocked_then_granted")) and bool(s.get("cancel_head_with_successor")) and bool(s.get("put and get at one instant"))
    return {"nontrivial": nt, "classes": sorted(s)}


AMOUNTS = [1, 1, 2, 2, 3, 4, 5, 7, 0.5, 1.5, 2.5, 0.25, 13]


def container_strategy(tier):
    big = tier == "thorough"
    amt = st.sampled_from(AMOUNTS)
    cmd = kgen.weighted([
        (st.tuples(st.just("put"), amt).map(list), 6),
        (st.tuples(st.just("get"), amt).map(list), 6),
        (st.tuples(st.sampled_from(["put", "get"]), st.sampled_from([0, -1, -0.5])).map(list), 1),
        (st.tuples(st.just("cancel"), st.sampled_from(["put", "get"]), st.integers(0, 3)).map(list), 4),
    ])
    group = kgen.weighted([
        (st.lists(cmd, min_size=1, max_size=1), 4),
        (st.lists(cmd, min_size=2, max_size=3), 3),
        (st.tuples(st.just("adv"), st.sampled_from([1, 0.5, 2])).map(list), 2),
    ])
    capinit = st.sampled_from([(1, 0), (2, 1), (3, 3), (4, 0), (5, 2), (6, 3), (8, 4), (10, 5), (12, 6), (2.5, 0.5), (2.5, 2.5),
                               ("inf", 0), ("inf", 3), (10, 0), (10, 10), (7, 3.5)])
    small = capinit.flatmap(lambda ci: st.fixed_dictionaries({
        "cls": st.just("Container"), "cap": st.just(ci[0]), "init": st.just(ci[1]),
        "groups": st.lists(group, min_size=12, max_size=80 if big else 40)}))
    # the same histories in units a billion times smaller (bytes of a terabyte store): amounts that differ by one unit in 1e9
    # and more are different amounts
    G = 10 ** 9
    hamt = st.sampled_from([G, G + 1, G - 1, 2 * G, 2 * G + 1, 1, 3 * G, 5 * G])
    hcmd = kgen.weighted([
        (st.tuples(st.just("put"), hamt).map(list), 6),
        (st.tuples(st.just("get"), hamt).map(list), 6),
        (st.tuples(st.just("cancel"), st.sampled_from(["put", "get"]), st.integers(0, 3)).map(list), 3),
    ])
    hgroup = kgen.weighted([
        (st.lists(hcmd, min_size=1, max_size=1), 4),
        (st.lists(hcmd, min_size=2, max_size=3), 3),
        (st.tuples(st.just("adv"), st.sampled_from([1, 0.5, 2])).map(list), 2),
    ])
    hcap = st.sampled_from([(3 * G, G), (5 * G, 0), (2 * G + 1, 2 * G + 1), (10 * G, 5 * G), (G, G - 1)])
    huge = hcap.flatmap(lambda ci: st.fixed_dictionaries({
        "cls": st.just("Container"), "cap": st.just(ci[0]), "init": st.just(ci[1]),
        "groups": st.lists(hgroup, min_size=12, max_size=40)}))
    return kgen.weighted([(small, 4), (huge, 1)])


def store_strategy(cls):
    def strat(tier):
        big = tier == "thorough"
        put = st.tuples(st.just("put"), st.just(0), st.integers(0, 6 if cls == "PriorityStore" else 3)).map(list)
        if cls == "FilterStore":
            get = st.tuples(st.just("get"), st.sampled_from(["any", "even", "odd", "odd", "even", "big", "none"])).map(list)
        else:
            get = st.tuples(st.just("get"), st.just(None)).map(list)
        cmd = kgen.weighted([(put, 10 if cls == "PriorityStore" else 6), (get, 6),
                             (st.tuples(st.just("cancel"), st.sampled_from(["put", "get"]), st.integers(0, 3)).map(list), 4)])
        group = kgen.weighted([
            (st.lists(cmd, min_size=1, max_size=1), 4),
            (st.lists(cmd, min_size=2, max_size=3), 3),
            (st.tuples(st.just("adv"), st.sampled_from([1, 0.5, 2])).map(list), 2),
        ])
        return st.fixed_dictionaries({
            "cls": st.just(cls), "cap": st.sampled_from([1, 2, 3, 8, "inf", "inf", "inf"] if cls == "PriorityStore" else
                                                        [1, 1, 2, 2, 3, 4, "inf"]), "init": st.just(0),
            "groups": st.lists(group, min_size=12, max_size=80 if big else 40)})
    return strat


# ---------------------------------------------------------------------------------- unusual item values
# 0, False and 0.0 (1, True and 1.0) are equal but not the same item: a filter can tell them apart
VALUES = [None, 0, "", False, (), 0.0, 1, "a", "eos", 7, 1.0, True]
VFILTERS = {
    "any": lambda it: True,
    "is_none": lambda it: it is None,
    "falsy": lambda it: not it,
    "truthy": lambda it: bool(it),
    "str": lambda it: isinstance(it, str),
    "never": lambda it: False,
    "float": lambda it: isinstance(it, float),
    "bool": lambda it: isinstance(it, bool),
}


def run_values(case):
    """items are arbitrary Python values - None (an end-of-stream marker), 0, '', False: nothing may treat an item's value as
    'no item'. Unbounded Store / FilterStore, puts never block; reference: pending getters are served oldest first, each taking
    the first held item (in insertion order) that its filter accepts; a FilterStore getter is skipped only while nothing matches"""
    env = Environment()
    filt = case["cls"] == "FilterStore"
    store = FilterStore(env) if filt else Store(env)
    held, waiting, want, got = [], [], {}, {}
    n_get = 0

    def serve():
        i = 0
        while i < len(waiting):
            gid, f = waiting[i]
            idx = next((k for k, it in enumerate(held) if f(it)), None)
            if idx is None:
                if not filt:
                    break
                i += 1
                continue
            want[gid] = held.pop(idx)
            del waiting[i]
    specials = 0
    for op in case["ops"]:
        if op[0] == "put":
            item = VALUES[op[1] % len(VALUES)]
            try:
                store.put(item)
            except BaseException as e:
                raise crash("C07.no_exception", e, f"put({item!r})")
            held.append(item)
            if not item:
                specials += 1
        else:
            gid = n_get
            n_get += 1
            fname = op[1] if filt else "any"
            f = VFILTERS[fname]
            try:
                ev = store.get(f) if filt else store.get()
            except BaseException as e:
                raise crash("C07.no_exception", e, "get()")
            ev.callbacks.append(lambda e, gid=gid: got.__setitem__(gid, e.value))
            waiting.append((gid, f))
        serve()
        try:
            env.run()
        except BaseException as e:
            raise crash("C07.no_exception", e, "while serving requests")
        if set(got) != set(want) or any(got[k] is not want[k] and got[k] != want[k] for k in got) \
                or any(type(got[k]) is not type(want[k]) for k in got):
            raise Violation("C07.exactly_once", f"{case['cls']} after {case['ops'][:case['ops'].index(op) + 1]}: getters received "
                                                f"{got}, reference {want} (held {held})", "C07.exactly_once/values/" + case["cls"])
        if len(store.items) != len(held) or any(type(a) is not type(b) or a != b for a, b in zip(store.items, held)):
            raise Violation("C07.conservation", f"{case['cls']} holds {store.items}, reference {held}", "C07.conservation/values")
    classes = set()
    if any(v is None for v in want.values()):
        classes.add("None delivered as an item")
    if any(not v and v is not None for v in want.values()):
        classes.add("falsy item delivered")
    if waiting:
        classes.add("getter left waiting")
    return {"nontrivial": specials >= 1 and len(want) >= 2, "classes": sorted(classes)}


def values_strategy(tier):
    put = st.tuples(st.just("put"), st.integers(0, len(VALUES) - 1)).map(list)
    get = st.tuples(st.just("get"), st.sampled_from(sorted(VFILTERS))).map(list)
    return st.fixed_dictionaries({"cls": st.sampled_from(["FilterStore", "FilterStore", "Store"]),
                                  "ops": st.lists(kgen.weighted([(put, 1), (get, 1)]), min_size=3, max_size=14)})


PROP = Property(
    "C07",
    rule=("Histories of put/get/cancel commands (groups of 1-3 commands at one instant executed by actor processes, drained "
          "step by step; clock advances) on Container(capacity 1..12|2.5|7|inf, init) with int and dyadic amounts (incl. "
          "amounts > capacity and <= 0) and on Store/PriorityStore/FilterStore(capacity 1..4|inf) with unique items, "
          "PriorityItem priorities 0..3, filters any/even/odd/big/none. Model updated only from observed grants (request "
          "events being triggered). Oracle: level in [0,capacity] and == init + granted puts - granted gets (exact, "
          "Fractions) after every kernel step; store contents == accepted-not-delivered; every delivered item was held, is "
          "the oldest (Store) / of minimal priority (PriorityStore) / the first match in insertion order (FilterStore); "
          "puts and gets each granted oldest-first (FilterStore: a getter is overtaken only while no held item matches its "
          "filter); at every clock advance the oldest pending put and get (FilterStore: every pending get) are "
          "unsatisfiable; amounts <= 0 raise ValueError without effect; nothing raises. Non-trivial = a blocked request "
          "later granted AND a cancelled head request with a pending successor AND an instant with both a put and a get. "
          "Facet values: unbounded Store/FilterStore holding None, 0, '', False, () and ordinary items; every getter receives "
          "exactly the item a reference FIFO/first-match model hands it (identity or equality and type), after every operation."),
    facets=[
        Facet("Container", container_strategy, run_case, quick=700, thorough=5000,
              essential=["blocked_then_granted", "cancel_head_with_successor", "pending request withdrawn by leaving its with-block",
                         "amount==free space", "amount==level",
                         "non-positive amount refused", "put and get at one instant"]),
        Facet("Store", store_strategy("Store"), run_case, quick=400, thorough=3000,
              essential=["blocked_then_granted", "cancel_head_with_successor"]),
        Facet("PriorityStore", store_strategy("PriorityStore"), run_case, quick=400, thorough=3000,
              essential=["blocked_then_granted", "equal priorities", ">=6 items held at a get"]),
        Facet("FilterStore", store_strategy("FilterStore"), run_case, quick=500, thorough=4000,
              essential=["blocked_then_granted", "filter getter overtaken", "cancel_head_with_successor"]),
        Facet("values", values_strategy, run_values, quick=600, thorough=4000,
              essential=["None delivered as an item", "falsy item delivered", "getter left waiting"]),
    ],
    assumptions=["grants are observed as request events being triggered (schedule hook)"],
)
