"""C03, kernel resources: a generated producer/consumer program over a PriorityStore (many items of equal priority), a
PriorityResource (requests of equal priority) and a FilterStore; the trace - who got what, when - must be a function of
the program alone: not of object addresses, allocation history or hash seeds."""
import hashlib
import json

from hypothesis import strategies as st

from ..core import common


def res_strategy(tier):
    put = st.tuples(st.sampled_from([0, 0, 1, 2]), st.sampled_from([0, 1, 1, 1, 2])).map(list)      # delay before, priority
    get = st.sampled_from([0, 0, 1, 3])
    return st.fixed_dictionaries({
        "producers": st.lists(st.lists(put, min_size=1, max_size=7), min_size=1, max_size=4),
        "consumers": st.lists(st.lists(get, min_size=1, max_size=8), min_size=1, max_size=3),
        "cap": st.sampled_from([None, None, 2, 5]),
        "users": st.lists(st.tuples(st.sampled_from([0, 0, 1]), st.sampled_from([0, 1, 1]), st.sampled_from([1, 2])).map(list),
                          min_size=0, max_size=6),
        "start": st.sampled_from([0, 0, 2]),
    })


def trace_of(case):
    from onl.sim import Environment, PriorityStore, PriorityItem, PriorityResource, FilterStore
    env = Environment()
    ps = PriorityStore(env) if case["cap"] is None else PriorityStore(env, capacity=case["cap"])
    fs = FilterStore(env)
    pr = PriorityResource(env, capacity=1)
    log = []

    def producer(pid, script):
        for k, (d, prio) in enumerate(script):
            if d:
                yield env.timeout(d)
            yield ps.put(PriorityItem(prio, (pid, k)))
            log.append([env.now, "put", pid, k])
            yield fs.put((prio, pid, k))

    def consumer(cid, script):
        if case["start"]:
            yield env.timeout(case["start"])
        for d in script:
            if d:
                yield env.timeout(d)
            it = yield ps.get()
            log.append([env.now, "get", cid, it.priority, list(it.item)])
            got = yield fs.get(lambda x, p=it.priority: x[0] == p)
            log.append([env.now, "fget", cid, list(got)])

    def user(uid, d, prio, hold):
        if d:
            yield env.timeout(d)
        with pr.request(priority=prio) as rq:
            yield rq
            log.append([env.now, "slot", uid])
            yield env.timeout(hold)

    for i, s in enumerate(case["producers"]):
        env.process(producer(i, s))
    for i, s in enumerate(case["consumers"]):
        env.process(consumer(i, s))
    for i, (d, prio, hold) in enumerate(case["users"]):
        env.process(user(i, d, prio, hold))
    env.run(until=200)
    log.append(["left", [[it.priority, list(it.item)] for it in sorted(ps.items, key=lambda it: (it.priority, it.item))]])
    return log


def digest(case):
    return hashlib.sha256(json.dumps(trace_of(case), default=common.jdefault).encode()).hexdigest()


class _Junk:
    __slots__ = ("a", "b")


def run_twice(case):
    """second execution after the allocator's free lists have been stirred (objects of the sizes the kernel uses are
    allocated and every other one is released): same program, same interpreter, different addresses"""
    from onl.sim import PriorityItem
    a = trace_of(case)
    keep = [PriorityItem(i, (i, i)) for i in range(41)] + [_Junk() for _ in range(23)] + [[i] for i in range(17)]
    del keep[::2]
    b = trace_of(case)
    keep2 = [PriorityItem(i, (i, i)) for i in range(13)]
    del keep2[1::3]
    c = trace_of(case)
    del keep, keep2
    for x in (b, c):
        if x != a:
            i = next((k for k, (p, q) in enumerate(zip(a, x)) if p != q), min(len(a), len(x)))
            raise common.Violation("C03.repro", f"two executions of the same resource program in one interpreter differ at entry {i}: "
                                   f"{a[i] if i < len(a) else None} vs {x[i] if i < len(x) else None}", "C03.repro/inproc-resources")
    gets = [e for e in a if e[1] == "get"]
    ties = len(gets) - len({(e[0], e[3]) for e in gets})
    prios = [p for s in case["producers"] for _, p in s]
    classes = ["resource program repeated"]
    if len(prios) - len(set(prios)) >= 2 and len(gets) >= 3:
        classes.append("equal-priority items waiting together")
    if len({(d, p) for d, p, _ in case["users"]}) < len(case["users"]):
        classes.append("equal-priority requests of one instant")
    return {"nontrivial": len(gets) >= 3 and len(prios) - len(set(prios)) >= 2, "classes": classes}
