"""C01 - events take effect in time order, urgent first, then trigger order (DESIGN 4/C01)."""
from collections import defaultdict

from ..core import kdsl, kgen
from ..runner import Facet, Property

WEIGHTS = {"timeout": 6, "wait": 2, "succeed": 2, "fail": 1, "join": 2, "spawn": 3, "interrupt": 3,
           "neg_timeout": 1, "return": 1, "cb": 1}


def classify(h):
    classes = set()
    by_due = defaultdict(list)
    for o in h.occs:
        by_due[o.due].append(o)
    uan = tie = False
    for due, occs in by_due.items():
        if len(occs) >= 3:
            classes.add(">=3 at one instant")
        ns = [o for o in occs if o.cls == "N"]
        us = [o for o in occs if o.cls == "U"]
        if len(ns) >= 2 or len(us) >= 2:
            tie = True
            classes.add("same-class-tie>=2")
        for u in us:
            for n in ns:
                if n.seq < u.seq and (n.proc_step is None or n.proc_step > u.trig_step):
                    uan = True
        if isinstance(due, float) and due != float("inf") and due != int(due) and len(occs) >= 2:
            classes.add("float-sum instant")
    if uan:
        classes.add("urgent-after-normal")
    zero = [o for o in h.occs if o.kind == "timeout" and o.due == o.trig_now]
    if len(zero) >= 2:
        classes.add("zero-delay chain")
    if h.stats.get("neg_timeout"):
        classes.add("negative delay refused")
    if any(o.kind == "intr" for o in h.occs):
        classes.add("interrupt")
    return uan and tie, classes


def run_case(case):
    res = kdsl.run_program(case)
    nt, classes = classify(res.h)
    return {"nontrivial": nt, "classes": sorted(classes)}


def strategy(tier):
    big = tier == "thorough"
    return kgen.programs(WEIGHTS, max_bodies=6 if big else 5, max_instrs=8, max_start=10 if big else 5, min_instrs=2, min_start=2)


def until_strategy(tier):
    """programs driven through numeric run(until=t) stops (due instants, grid offsets, float-inexact offsets)"""
    from hypothesis import strategies as st
    from . import c03
    due = st.tuples(st.just("due"), st.integers(0, 3)).map(list)
    btw = st.tuples(st.just("between"), st.integers(0, 3)).map(list)
    num = st.tuples(st.just("num"), st.sampled_from([0, 1, 2, 0.5, 0.25, 0.1, 0.3, 3, -1])).map(list)
    inx = st.tuples(st.just("inexact"), st.integers(0, 20)).map(list)
    stp = st.tuples(st.just("step"), st.integers(1, 4)).map(list)
    plan = st.lists(kgen.weighted([(due, 3), (num, 2), (inx, 2), (btw, 1), (stp, 1)]), min_size=3, max_size=8)
    return st.fixed_dictionaries({"prog": strategy(tier), "plan": plan})


def run_until(case):
    from . import c03
    info = c03.run_split(case)
    classes = [c for c in info["classes"] if c in ("stop at busy instant", "stop at float-inexact offset", "illegal stop refused")]
    return {"nontrivial": "stop at busy instant" in classes, "classes": classes}


def bigclock_strategy(tier):
    """integer clocks beyond 2**53 (no float represents every tick): t = t0 + d must still be exact, nothing may pass through float"""
    ints = [0, 1, 1, 2, 3, 5, 7]
    pol = kgen.policies(bias=["continue"] * 4, dl=kgen.st.sampled_from(ints))
    w = dict(WEIGHTS)
    w.pop("neg_timeout", None)
    return kgen.programs(w, max_bodies=5, max_instrs=7, max_start=6, min_instrs=2, min_start=2, pol=pol, ipol=pol,
                         delay_set=ints, inits=(2 ** 53 + 1, 2 ** 53, 2 ** 60 + 3, 10 ** 18 + 7))


def run_bigclock(case):
    res = kdsl.run_program(case)
    nt, classes = classify(res.h)
    odd = any(isinstance(o.due, int) and float(o.due) != o.due for o in res.h.occs)
    if odd:
        classes.add("instant that no float represents")
    return {"nontrivial": odd and "same-class-tie>=2" in classes, "classes": sorted(classes)}


def infinite_strategy(tier):
    """delays may be infinite (the 'park forever' idiom): such a timeout is due at t = inf and takes effect then, after everything
    finite, in trigger order among its peers"""
    inf_ = float("inf")
    ds = [0, 1, 2, 0.5, inf_, inf_, 1]
    pol = kgen.policies(bias=["continue"] * 4, dl=kgen.st.sampled_from([0, 1, inf_]))
    return kgen.programs(WEIGHTS, max_bodies=5, max_instrs=6, max_start=6, min_instrs=2, min_start=2, pol=pol, ipol=pol, delay_set=ds)


def run_infinite(case):
    res = kdsl.run_program(case)
    nt, classes = classify(res.h)
    n_inf = sum(1 for o in res.h.occs if o.due == float("inf") and o.proc_step is not None)
    if n_inf:
        classes.add("occurrence due at infinity took effect")
    if n_inf >= 2:
        classes.add(">=2 occurrences at infinity")
    return {"nontrivial": n_inf >= 2, "classes": sorted(classes)}


def cond_strategy(tier):
    from . import c05
    return c05.strategy(tier)


def run_cond(case):
    """all_of / any_of events are ordinary occurrences too: triggered when their deciding operand is processed, they queue up
    behind every ordinary occurrence of that instant triggered before them"""
    res = kdsl.run_program(case)
    nt, classes = classify(res.h)
    h = res.h
    conds = [o for o in h.occs if o.hev is not None and o.hev.kind == "C"]
    behind = False
    for c in conds:
        for o in h.occs:
            if o is not c and o.cls == "N" and o.due == c.due and o.seq < c.seq and (o.proc_step is None or o.proc_step > c.trig_step):
                behind = True
    if conds:
        classes.add("condition occurrence")
    if behind:
        classes.add("condition triggered behind a pending ordinary occurrence of its instant")
    return {"nontrivial": behind, "classes": sorted(classes)}


PROP = Property(
    "C01",
    rule=("Hypothesis-generated kernel programs (1-12 processes, <=8 instructions each: timeouts with delays from a "
          "coincidence grid of ints/dyadic/decimal floats incl. 0, shared events, joins, spawns, interrupts, negative "
          "timeouts) run step by step on a tracing Environment; oracle = reference agenda: each step must process the "
          "minimum of the pending occurrences by (due, urgent-before-ordinary by event type, trigger sequence), at "
          "now == due exactly, peek()==due, now non-decreasing, nothing skipped/twice. Non-trivial = the run has an "
          "instant where an urgent occurrence was triggered after a still-pending ordinary one AND an instant with >=2 "
          "occurrences of one class; distinct = distinct canonical JSON of the program. Facet until_stops: the same programs "
          "driven through numeric run(until=t) stops (t = pending due instants, grid offsets, offsets for which now+(t-now)!=t "
          "in floating point): the stop is a reference-agenda entry of the urgent class due at exactly t, so it must take effect "
          "at now == t, before ordinary events of t and after everything earlier; non-trivial = a stop at an instant with other "
          "occurrences due. Facet bigclock: the same programs on integer clocks beyond 2**53 with integer "
          "delays. Facet infinite: delays of float('inf'); those "
          "occurrences are due at t = inf and take effect there, after everything finite. Facet conditions: programs waiting on all_of/any_of trees; a condition is an ordinary occurrence "
          "triggered when its deciding operand is processed and keeps its place in trigger order."),
    facets=[Facet("programs", strategy, run_case, quick=3000, thorough=20000,
                  essential=["urgent-after-normal", "same-class-tie>=2", "zero-delay chain", "float-sum instant",
                             "negative delay refused"]),
            Facet("until_stops", until_strategy, run_until, quick=1200, thorough=8000,
                  essential=["stop at busy instant", "stop at float-inexact offset"]),
            Facet("bigclock", bigclock_strategy, run_bigclock, quick=600, thorough=4000,
                  essential=["instant that no float represents", "same-class-tie>=2"]),
            Facet("infinite", infinite_strategy, run_infinite, quick=600, thorough=4000,
                  essential=["occurrence due at infinity took effect", ">=2 occurrences at infinity"]),
            Facet("conditions", cond_strategy, run_cond, quick=1200, thorough=8000,
                  essential=["condition triggered behind a pending ordinary occurrence of its instant"])],
    assumptions=["every event reaches the agenda through Environment.schedule (tracing subclass overrides it)",
                 "urgent/ordinary class is derived from the event type and the harness's own run(until) flag, not from the "
                 "priority argument", "one environment per case"],
)
