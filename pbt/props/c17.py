"""C17 - TCP sends only inside its window and adapts it by the Reno/CUBIC rules (DESIGN 4/C17).

History on a bare sender with a recording `out`: new_ack(advance k segments, RTT sample), dup_ack, advance(dt) (timers
expire). ACKs are built the way the sink builds them. A reference sender written from the statement is compared after
every rule (public cwnd, ssthresh, rto, rtt_estimate, est_deviation, dupack, next_seq, last_ack) and against the tap.
"""
from math import inf

from hypothesis import strategies as st

from onl.packet import Packet, TCPCubic, TCPPacketGenerator, TCPReno
from onl.packet.tcp_generator import Flow

from ..core import kgen, netlab
from ..core.common import HarnessError, Inconclusive, Violation, crash
from ..core.netlab import Lab
from ..runner import Facet, Property

MSS = 512
REL = 1e-9


def near(a, b):
    return abs(a - b) <= REL * max(1.0, abs(a), abs(b))


class RefCubic:
    """transcription of the CUBIC window growth used only in congestion avoidance (implementation-derived: the statement names
    'the cubic / TCP-friendly growth' without formulas)"""

    def __init__(self):
        self.reset()
        self.d_min = 0
        self.cwnd_cnt = 0
        self.cnt = 0
        self.beta, self.C = 0.2, 0.4

    def reset(self):
        self.W_last_max = 0
        self.epoch_start = 0
        self.origin_point = 0
        self.d_min = 0
        self.W_tcp = 0
        self.K = 0
        self.ack_cnt = 0

    def ca(self, cwnd, now):
        self.ack_cnt += 1
        if self.epoch_start <= 0:
            self.epoch_start = now
            if cwnd < self.W_last_max:
                self.K = ((self.W_last_max - cwnd) / self.C) ** (1.0 / 3)
            else:
                self.K = 0
                self.origin_point = cwnd
            self.ack_cnt = 1
            self.W_tcp = cwnd
        t = now + self.d_min - self.epoch_start
        target = self.origin_point + self.C * (t - self.K) ** 3
        if target > cwnd:
            self.cnt = cwnd / (target - cwnd)
        else:
            self.cnt = 100 * cwnd
        self.W_tcp += 3 * self.beta / (2 - self.beta) * (self.ack_cnt / cwnd)
        self.ack_cnt = 0
        if self.W_tcp > cwnd:
            max_cnt = cwnd / (self.W_tcp - cwnd)
            if self.cnt > max_cnt:
                self.cnt = max_cnt
        if self.cwnd_cnt > self.cnt:
            self.cwnd_cnt = 0
            return cwnd + MSS
        self.cwnd_cnt += 1
        return cwnd


class RefSender:
    def __init__(self, case):
        self.cubic = RefCubic() if case["cc"] == "cubic" else None
        self.cwnd = 512 if self.cubic else case["cwnd0"]
        self.ssthresh = 65535 if self.cubic else case["ssthresh0"]
        self.srtt = case["rtt0"]
        self.rttvar = 0
        self.rto = 2 * case["rtt0"]
        self.dupack = 0
        self.next_seq = 0
        self.last_ack = 0
        self.size = case["nseg"] * MSS
        self.timers = []        # [expiry, arm seq, segment, rto it was armed with]
        self.arm = 0
        self.expect = []        # emissions expected: (time, segment, kind)
        self.in_flight = {}     # segment -> last (re)transmission time
        self.classes = set()

    def send_loop(self, now):
        while self.next_seq < self.size and self.next_seq + MSS <= min(self.size, self.last_ack + self.cwnd):
            s = self.next_seq
            self.expect.append((now, s, "new"))
            self.in_flight[s] = now
            self.next_seq += MSS
            self.arm += 1
            self.timers.append([now + self.rto, self.arm, s])

    def retransmit(self, now, s, kind):
        if s in self.in_flight:
            self.expect.append((now, s, kind))
            self.in_flight[s] = now

    def new_ack(self, now, ackno, sample):
        if self.dupack >= 3:
            self.cwnd = self.ssthresh
            self.classes.add("deflate after fast recovery")
        elif self.dupack > 0:
            self.classes.add("new ACK after 1-2 duplicates")
        self.dupack = 0
        err = sample - self.srtt
        self.srtt += err / 8
        self.rttvar += (abs(err) - self.rttvar) / 4
        self.rto = self.srtt + 4 * self.rttvar
        self.last_ack = ackno
        if self.cubic is not None:
            c = self.cubic
            c.d_min = min(c.d_min, sample) if c.d_min > 0 else sample
        if self.cwnd <= self.ssthresh:
            self.cwnd += MSS
            self.classes.add("slow start")
        elif self.cubic is None:
            self.cwnd += MSS * MSS / self.cwnd
            self.classes.add("congestion avoidance")
        else:
            self.cwnd = self.cubic.ca(self.cwnd, now)
            self.classes.add("congestion avoidance")
        for s in [s for s in self.in_flight if s < ackno]:
            del self.in_flight[s]
        self.timers = [t for t in self.timers if t[2] >= ackno]
        self.send_loop(now)

    def dup_ack(self, now, ackno):
        self.dupack += 1
        if self.dupack == 3:
            self.ssthresh = max(2 * MSS, self.cwnd / 2)
            self.cwnd = self.ssthresh + 3 * MSS
            self.retransmit(now, ackno, "fast")
            self.classes.add("fast retransmit")
        elif self.dupack > 3:
            self.cwnd += MSS
            self.classes.add("window inflation")
            if ackno in self.in_flight:
                self.expect.append((now, ackno, "optional"))

    def expire_until(self, target):
        """process timer expiries with expiry <= target in (expiry, arming order)"""
        while True:
            due = [t for t in self.timers if t[0] <= target]
            if not due:
                return
            t = min(due, key=lambda x: (x[0], x[1]))
            now = t[0]
            self.cwnd = MSS
            if self.cubic is not None:
                self.cubic.reset()
            self.retransmit(now, t[2], "timeout")
            self.rto *= 2
            self.arm += 1
            t[0] = now + self.rto
            t[1] = self.arm
            self.classes.add("retransmission timeout")


def run_case(case):
    lab = Lab(clause="C17.no_exception")
    env = lab.env
    out = lab.tap("out")
    cc = TCPCubic() if case["cc"] == "cubic" else TCPReno(cwnd=case["cwnd0"], ssthresh=case["ssthresh0"])
    flow = Flow(flow_id=3, src="s", dst="d", finish_time=inf, size=case["nseg"] * MSS)
    snd = TCPPacketGenerator(env, flow, cc, element_id="tcp", rtt_estimate=case["rtt0"])
    snd.out = out
    ref = RefSender(case)
    seen = {"n": 0}

    def on_put(rec):
        # send guard, judged with the values public at the moment of emission
        pid = rec.snap[0]
        if pid == snd.next_seq and rec.snap[3] == MSS and pid not in seen:
            pass
    emitted = []
    highest = {"v": -MSS}

    def tap_hook(rec):
        pid, size = rec.snap[0], rec.snap[3]
        if pid > highest["v"]:
            # new data
            if size != MSS or pid != highest["v"] + MSS or pid % MSS:
                lab.flag("C17.segments", f"new data segment id {pid} size {size}: not MSS-sized / not consecutive after {highest['v']}",
                         "C17.segments")
            lim = min(snd.send_buffer, snd.last_ack + snd.congestion_control.cwnd)
            if pid + MSS > lim + 1e-9:
                lab.flag("C17.window", f"segment {pid} sent although {pid}+MSS > min(buffered {snd.send_buffer}, last_ack {snd.last_ack} + "
                                       f"cwnd {snd.congestion_control.cwnd}) = {lim}", "C17.window")
            highest["v"] = pid
            emitted.append((rec.now, pid, "new"))
        else:
            emitted.append((rec.now, pid, "retx"))
    out.on_put = tap_hook

    def drain():
        n = 0
        while env.peek() == env.now:
            n += 1
            if n > 100000:
                raise Inconclusive("drain budget")
            lab.steps += 1
            try:
                env.step()
            except Exception as e:
                lab.check()
                raise crash("C17.no_exception", e, f"at t={env.now}")
            lab.check()

    def compare(where):
        c = snd.congestion_control
        got = {"cwnd": c.cwnd, "ssthresh": c.ssthresh, "rto": snd.rto, "rtt_estimate": snd.rtt_estimate,
               "est_deviation": snd.est_deviation, "dupack": snd.dupack, "next_seq": snd.next_seq, "last_ack": snd.last_ack}
        want = {"cwnd": ref.cwnd, "ssthresh": ref.ssthresh, "rto": ref.rto, "rtt_estimate": ref.srtt,
                "est_deviation": ref.rttvar, "dupack": ref.dupack, "next_seq": ref.next_seq, "last_ack": ref.last_ack}
        for k in want:
            if not near(float(got[k]), float(want[k])):
                sig = "C17.state/" + k + ("/cubic" if case["cc"] == "cubic" else "")
                raise Violation("C17.state", f"after {where}: {k}={got[k]!r}, the rules give {want[k]!r} (all: {got} vs {want})", sig)
        if c.cwnd < MSS - 1e-9:
            raise Violation("C17.cwnd_floor", f"cwnd={c.cwnd} < MSS", "C17.cwnd_floor")
        # emissions
        exp = list(ref.expect)
        got_e = list(emitted)
        ref.expect.clear()
        emitted.clear()
        gi = 0
        for (t, s, kind) in exp:
            if gi < len(got_e) and near(got_e[gi][0], t) and got_e[gi][1] == s and (got_e[gi][2] == "new") == (kind == "new"):
                gi += 1
            elif kind == "optional":
                continue
            else:
                raise Violation("C17.emission", f"after {where}: expected {kind} transmission of segment {s} at t={t}; observed "
                                                f"{got_e[gi] if gi < len(got_e) else 'nothing'} (all observed {got_e}, expected {exp})",
                                "C17.emission/" + kind)
        if gi != len(got_e):
            raise Violation("C17.emission", f"after {where}: unexpected transmission {got_e[gi]} (expected {exp})",
                            "C17.emission/unexpected-" + got_e[gi][2])

    # start: the sender emits what its initial window allows
    drain()
    ref.send_loop(env.now)
    compare("start")
    for i, op in enumerate(case["ops"]):
        kind = op[0]
        if kind == "adv":
            target = env.now + op[1]
            ref.expire_until(target)
            lab.run(until=target)
            drain()
            compare(f"op {i} advance to {target}")
            continue
        inflight = sorted(ref.in_flight)
        if kind == "new":
            if ref.last_ack >= ref.next_seq:
                continue
            k = min(op[1], (ref.next_seq - ref.last_ack) // MSS)
            ackno = ref.last_ack + k * MSS
            pid = ackno - MSS
            if op[2] is None:
                t_tx = ref.in_flight.get(pid, env.now)
            else:
                t_tx = env.now - op[2]
            sample = env.now - t_tx
        else:
            ackno = ref.last_ack
            pid = inflight[op[1] % len(inflight)] if inflight else 0
            t_tx = env.now
            sample = 0
        ack = Packet(t_tx, size=40, packet_id=pid, flow_id=3 + 10000)
        ack.ack = ackno
        if kind == "new":
            ref.new_ack(env.now, ackno, sample)
        else:
            ref.dup_ack(env.now, ackno)
        try:
            snd.put(ack)
        except Exception as e:
            raise crash("C17.no_exception", e, f"in put(ack={ackno}) op {i}")
        drain()
        compare(f"op {i} {kind} ack={ackno}")
    classes = set(ref.classes)
    nt = {"slow start", "congestion avoidance", "fast retransmit", "window inflation", "deflate after fast recovery",
          "retransmission timeout"} <= classes
    classes.add(case["cc"])
    return {"nontrivial": nt, "classes": sorted(classes)}


def run_app_limited(case):
    """Application-limited flows (data arrives in MSS chunks at generated intervals, so the sender also sleeps waiting for
    data). Model-free clauses only: every new-data emission is MSS-sized, consecutively numbered and inside
    min(send_buffer, last_ack + cwnd) as public at that very moment; cwnd >= MSS; nothing raises."""
    lab = Lab(clause="C17.no_exception")
    env = lab.env
    out = lab.tap("out")
    cc = TCPCubic() if case["cc"] == "cubic" else TCPReno(cwnd=case["cwnd0"], ssthresh=case["ssthresh0"])
    gaps = list(case["gaps"])
    st_ = {"i": 0}

    def arrival():
        st_["i"] += 1
        return gaps[(st_["i"] - 1) % len(gaps)]
    # the application hands over data in chunks of its own liking (size_dist) or the flow has a size that is no multiple of
    # the MSS: only whole MSS segments of *buffered* data may go out
    kw = {}
    if case.get("chunks"):
        chunks = list(case["chunks"])
        cs = {"i": 0}

        def size_dist():
            cs["i"] += 1
            return chunks[(cs["i"] - 1) % len(chunks)]
        kw["size_dist"] = size_dist
    flow = Flow(flow_id=3, src="s", dst="d", finish_time=inf, size=case["nseg"] * MSS + case.get("tail", 0), arrival_dist=arrival, **kw)
    snd = TCPPacketGenerator(env, flow, cc, element_id="tcp", rtt_estimate=case["rtt0"])
    snd.out = out
    highest = {"v": -MSS}
    stats = {"new": 0, "shrunk_while_waiting": 0, "cwnd_at_last_new": None}

    def tap_hook(rec):
        pid, size = rec.snap[0], rec.snap[3]
        if pid > highest["v"]:
            if size != MSS or pid != highest["v"] + MSS:
                lab.flag("C17.segments", f"new data segment id {pid} size {size} after {highest['v']}", "C17.segments")
            lim = min(snd.send_buffer, snd.last_ack + snd.congestion_control.cwnd)
            if pid + MSS > lim + 1e-9:
                lab.flag("C17.window", f"segment {pid} sent at t={rec.now} although {pid}+MSS > min(buffered {snd.send_buffer}, last_ack "
                                       f"{snd.last_ack} + cwnd {snd.congestion_control.cwnd}) = {lim}", "C17.window/app-limited")
            highest["v"] = pid
            stats["new"] += 1
            c0 = stats["cwnd_at_last_new"]
            if c0 is not None and snd.congestion_control.cwnd < c0:
                stats["shrunk_while_waiting"] += 1
            stats["cwnd_at_last_new"] = snd.congestion_control.cwnd
    out.on_put = tap_hook

    def settle():
        n = 0
        while env.peek() == env.now:
            n += 1
            if n > 100000:
                raise Inconclusive("drain budget")
            try:
                env.step()
            except Exception as e:
                lab.check()
                raise crash("C17.no_exception", e, f"at t={env.now}")
            lab.check()
        if snd.congestion_control.cwnd < MSS - 1e-9:
            raise Violation("C17.cwnd_floor", f"cwnd={snd.congestion_control.cwnd} < MSS", "C17.cwnd_floor")
    settle()
    for i, op in enumerate(case["ops"]):
        if op[0] == "adv":
            lab.run(until=env.now + op[1])
            settle()
            continue
        sent = sorted(snd.sent_packets)
        if op[0] == "new":
            if snd.last_ack >= snd.next_seq:
                continue
            k = min(op[1], (snd.next_seq - snd.last_ack) // MSS)
            ackno = snd.last_ack + k * MSS
            pid = ackno - MSS
            t_tx = snd.sent_packets[pid].time if pid in snd.sent_packets else env.now
        else:
            ackno = snd.last_ack
            pid = sent[op[1] % len(sent)] if sent else 0
            t_tx = env.now
        ack = Packet(t_tx, size=40, packet_id=pid, flow_id=3 + 10000)
        ack.ack = ackno
        try:
            snd.put(ack)
        except Exception as e:
            raise crash("C17.no_exception", e, f"in put(ack={ackno}) op {i}")
        settle()
    classes = {case["cc"]}
    if case.get("chunks") or case.get("tail"):
        classes.add("buffered data not a multiple of the MSS")
    if stats["shrunk_while_waiting"]:
        classes.add("window shrank between two new-data emissions")
    if stats["new"] >= 4:
        classes.add(">=4 new segments")
    return {"nontrivial": stats["shrunk_while_waiting"] > 0 and stats["new"] >= 4, "classes": sorted(classes)}


def app_strategy(tier):
    big = tier == "thorough"
    new = st.tuples(st.just("new"), st.integers(1, 3)).map(list)
    dup = st.tuples(st.just("dup"), st.integers(0, 5)).map(list)
    adv = st.tuples(st.just("adv"), st.sampled_from([0.1, 0.25, 0.5, 1, 2, 4])).map(list)
    dups = st.lists(dup, min_size=3, max_size=5)
    chunk = kgen.weighted([(st.lists(adv, min_size=1, max_size=2), 5), (st.lists(new, min_size=1, max_size=2), 3), (dups, 2)])
    ops = st.lists(chunk, min_size=5, max_size=30 if big else 18).map(lambda cs: [o for c in cs for o in c])
    return st.fixed_dictionaries({
        "cc": st.sampled_from(["reno", "reno", "cubic"]),
        "cwnd0": st.sampled_from([1024, 2048, 4096, 1536]),
        "ssthresh0": st.sampled_from([1024, 4096, 65535]),
        "rtt0": st.sampled_from([1.0, 0.5, 0.75]),
        "nseg": st.sampled_from([12, 40]),
        "gaps": st.lists(st.sampled_from([0, 0.25, 0.5, 1, 1, 2]), min_size=1, max_size=5),
        "chunks": st.one_of(st.none(), st.none(), st.lists(st.sampled_from([300, 700, 512, 1000, 100, 1024]), min_size=1, max_size=4)),
        "tail": st.sampled_from([0, 0, 200, 488]),
        "ops": ops})


def strategy_for(cc):
    def strat(tier):
        big = tier == "thorough"
        new = st.tuples(st.just("new"), st.integers(1, 4), st.sampled_from([None, None, 0.05, 0.5, 1.0, 3.0, 0.0])).map(list)
        dup = st.tuples(st.just("dup"), st.integers(0, 5)).map(list)
        adv = st.tuples(st.just("adv"), st.sampled_from([0.01, 0.1, 0.5, 1, 2, 4, 8])).map(list)
        dups = st.integers(3, 7).flatmap(lambda n: st.lists(dup, min_size=n, max_size=n))
        chunk = kgen.weighted([(st.lists(new, min_size=1, max_size=4), 5), (dups, 2), (st.lists(dup, min_size=1, max_size=2), 1),
                               (st.lists(adv, min_size=1, max_size=1), 3)])
        ops = st.lists(chunk, min_size=4, max_size=30 if big else 18).map(lambda cs: [o for c in cs for o in c])
        if cc == "cubic":
            # a family that spends a long time in congestion avoidance with seconds passing between ACKs, entered after
            # timeouts and a triple duplicate, with RTT samples that differ before and after (min-RTT state matters)
            pair = st.tuples(st.sampled_from([0.5, 1, 2, 3]), st.sampled_from([None, 0.5, 2.0, 1.0])).map(
                lambda t: [["adv", t[0]], ["new", 1, t[1]]])
            pre = st.tuples(st.sampled_from([0.05, 0.25, 0.5]), st.sampled_from([2, 4, 8]), st.sampled_from([1.0, 2.0, 3.0])).map(
                lambda t: [["adv", 0.01], ["new", 1, t[0]], ["adv", t[1]], ["adv", t[1]], ["new", 1, t[2]], ["new", 1, t[2]],
                           ["dup", 0], ["dup", 0], ["dup", 0]])
            long_ca = st.tuples(pre, st.lists(pair, min_size=6, max_size=25)).map(lambda t: t[0] + [o for p in t[1] for o in p])
            ops = kgen.weighted([(ops, 2), (long_ca, 1)])
        return st.fixed_dictionaries({
            "cc": st.just(cc),
            "cwnd0": st.sampled_from([512, 1024, 2048, 700, 1536, 5000]),
            "ssthresh0": st.sampled_from([1024, 2048, 4096, 3000, 65535]),
            "rtt0": st.sampled_from([1.0, 0.5, 0.1, 2.0]),
            "nseg": st.sampled_from([8, 20, 60, 200]),
            "ops": ops,
        })
    return strat


PROP = Property(
    "C17",
    rule=("Histories on a bare TCPPacketGenerator with a recording out: new ACKs advancing by 1-4 segments (RTT sample = time "
          "since that segment's transmission, or arbitrary), runs of duplicate ACKs of any length, clock advances that let "
          "per-segment timers expire; TCPReno from generated cwnd/ssthresh (multiples and non-multiples of MSS), TCPCubic from "
          "defaults. Oracle: a reference sender written from the statement, compared after every rule on cwnd, ssthresh, rto, "
          "rtt_estimate, est_deviation, dupack, next_seq, last_ack (1e-9 relative): slow start +MSS when cwnd<=ssthresh, Reno CA "
          "+MSS^2/cwnd; third dup: ssthresh=max(2MSS,cwnd/2), cwnd=ssthresh+3MSS and one retransmission of segment ackno; "
          "later dups +MSS; next new ACK deflates to ssthresh then counts as a new ACK; timeout: cwnd=MSS, that segment "
          "retransmitted once at the expiry instant, rto doubled, timer re-armed with the doubled value; RTO=srtt+4*rttvar with "
          "gains 1/8, 1/4; cwnd>=MSS. At the tap: new data MSS-sized, consecutive multiples of MSS, and id+MSS <= "
          "min(send_buffer, last_ack+cwnd) at the moment of emission; every transmission is one the rules predict (a "
          "retransmission on the 4th+ duplicate is tolerated, not required). CUBIC congestion avoidance is compared with a "
          "transcription of the window-growth code (implementation-derived). Facet app_limited: flows whose data arrives in MSS "
          "chunks at generated intervals (the sender also sleeps waiting for data) under the same kinds of ACK/dup-ACK/advance "
          "histories, judged model-free: every new-data emission is MSS-sized, consecutive and inside min(send_buffer, "
          "last_ack+cwnd) as public at that moment; cwnd >= MSS; nothing raises. Non-trivial = the history crosses ssthresh, has a "
          "run of >=4 dup ACKs followed by a new ACK, and a timer expiry."),
    facets=[Facet("reno", strategy_for("reno"), run_case, quick=1000, thorough=7000,
                  essential=["slow start", "congestion avoidance", "fast retransmit", "window inflation",
                             "deflate after fast recovery", "retransmission timeout", "new ACK after 1-2 duplicates"]),
            Facet("cubic", strategy_for("cubic"), run_case, quick=500, thorough=3000,
                  essential=["slow start", "fast retransmit", "retransmission timeout", "congestion avoidance"]),
            Facet("app_limited", app_strategy, run_app_limited, quick=800, thorough=5000,
                  essential=["window shrank between two new-data emissions", ">=4 new segments"])],
    assumptions=["ACKs are delivered by direct put() calls at the current instant; expiries at exactly the target of an advance "
                 "are processed before the next ACK", "CUBIC growth formula is implementation-derived"],
)
