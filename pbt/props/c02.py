"""C02 - every waiter gets an event's outcome exactly once; failures are never lost (DESIGN 4/C02)."""
from ..core import kdsl, kgen
from ..runner import Facet, Property

WEIGHTS = {"timeout": 5, "wait": 9, "succeed": 3, "fail": 3, "join": 6, "spawn": 3, "cb": 2, "cbjoin": 2,
           "return": 1, "raise": 1, "interrupt": 1, "chain": 3}


def classify(res):
    h = res.h
    classes = set()
    multi = failed = False
    for hev in h.hevs.values():
        if hev.snapshot is None:
            continue
        if len(hev.snapshot) >= 2:
            multi = True
            classes.add("multi-waiter")
            kinds = {r[0] for r in hev.snapshot}
            if len(kinds) == 2:
                classes.add("callback+process waiters")
        if hev.expect and hev.expect[0] == "exc":
            failed = True
            classes.add("failed event processed")
            if hev.kind == "P" and any(r[0] == "proc" for r in hev.snapshot):
                classes.add("child raises -> joiner")
            if hev.kind == "E" and any(r[0] == "proc" for r in hev.snapshot):
                classes.add("shared event failed -> waiter")
    if h.stats.get("yield_processed"):
        classes.add("already-processed yield")
    if h.stats.get("double_trigger"):
        classes.add("double trigger")
    if h.stats.get("chain"):
        classes.add("chained event (trigger callback)")
    if h.stats.get("chain_from_handled_failure"):
        classes.add("chained to a failure that an earlier waiter handled")
    if h.stats.get("rewait"):
        classes.add("re-wait after failure/interrupt")
    if res.ended != "exhausted":
        classes.add("unhandled failure raises")
    return multi and failed, classes


def run_case(case):
    res = kdsl.run_program(case)
    nt, classes = classify(res)
    return {"nontrivial": nt, "classes": sorted(classes)}


def strategy(tier):
    big = tier == "thorough"
    pol = kgen.policies(bias=["continue", "continue", "rewait"])
    return kgen.programs(WEIGHTS, max_bodies=6 if big else 5, max_instrs=8, max_start=9 if big else 6, max_nev=2,
                         min_nev=1, min_start=3, min_instrs=2, pol=pol, delay_set=[0, 1, 2, 0.5, 0.1, 0.2, 0.3])


def until_strategy(tier):
    """the same programs driven through run(until=<shared event | process>) calls: waiters that register on the until-event
    before and after the call must all be served when it is processed"""
    from hypothesis import strategies as st
    ev = st.tuples(st.just("ev"), st.integers(0, 3)).map(list)
    pr = st.tuples(st.just("proc"), st.integers(0, 5)).map(list)
    stp = st.tuples(st.just("step"), st.integers(1, 4)).map(list)
    plan = st.lists(kgen.weighted([(ev, 3), (pr, 3), (stp, 1)]), min_size=2, max_size=6)
    return st.fixed_dictionaries({"prog": strategy(tier), "plan": plan})


def run_until(case):
    from . import c03
    info = c03.run_split(case)
    keep = ("until-event with earlier waiters", "until-event with later waiters", "until-event already processed",
            "until-event failed", "until-event never triggered")
    classes = [c for c in info["classes"] if c in keep]
    return {"nontrivial": "until-event with later waiters" in classes or "until-event with earlier waiters" in classes,
            "classes": classes}


def run_cond(case):
    """conditions as waiters: a failed operand is handled by a condition only if that condition forwards the failure; an operand
    failing after the condition was decided (or beside a sibling that decided it) is nobody's business and must make step() raise"""
    from . import c05
    info = c05.run_case(case)
    keep = ("operand fails first", "operand fails after trigger", "same-instant operands", "nested")
    classes = [c for c in info["classes"] if c in keep]
    return {"nontrivial": "operand fails first" in classes or "operand fails after trigger" in classes, "classes": classes}


def cond_strategy(tier):
    from hypothesis import strategies as st
    from . import c05

    def family(t):
        """an event that is both an operand of a condition (built first) and waited on by 2-4 later processes/callbacks; the
        condition is decided by another operand and processed while the event is still pending, then the event is triggered:
        whatever the condition does to detach itself must leave the later waiters in registration order"""
        d1, d2, n, kinds, fail, mode = t
        cond = [["wait_cond", [mode, [["ev", 0], ["to", d1, "c"]] + ([["ev", 1]] if mode == "any" else [])], "continue", "continue"]]
        waiter = [["wait", 0, "continue", "continue"], ["timeout", 0, None, "continue", "continue"]]
        cbody = [["cb", 0, False], ["timeout", d2 + 1, None, "continue", "continue"]]
        driver = [["timeout", d2, None, "continue", "continue"], (["fail", 0, ["ValueError", []]] if fail else ["succeed", 0, "v"])]
        bodies = [cond, waiter, cbody, driver]
        start = [0] + [1 if k else 2 for k in kinds[:n]] + [3]
        return {"init": 0, "nev": 2, "bodies": bodies, "start": start}
    fam = st.tuples(st.sampled_from([0, 0.5, 1]), st.sampled_from([1, 2, 1.5]), st.integers(2, 4),
                    st.lists(st.booleans(), min_size=4, max_size=4), st.booleans(), st.sampled_from(["any", "any", "all"])).map(family)
    return kgen.weighted([(c05.strategy(tier), 4), (fam, 1)])


PROP = Property(
    "C02",
    rule=("Generated kernel programs emphasising wiring (several waiters per event: processes and harness callbacks, "
          "value-carrying timeouts, shared events succeeded/failed by other processes, joins on children that return or "
          "raise, yields of already processed events, double succeed/fail, every handler policy). Oracle from harness "
          "bookkeeping W(E): at E's processing step exactly the registered waiters are invoked once, in registration order, "
          "with E's first outcome (value equality / exception type+args); processed events continue in the same step; "
          "second trigger raises RuntimeError and changes nothing; process termination value/exception reaches joiners; "
          "step() raises iff the harness predicts the failure unhandled (both directions), same type/args, at that "
          "instant. Non-trivial = some processed event had >=2 waiters AND some failed event was processed. "
          "Facet until_event: the same programs driven through run(until=<shared event|process>) calls; every waiter of the "
          "until-event - registered before or after the call - must be invoked once, in order, when it is processed. "
          "Facet condition_waiters: programs whose processes wait on all_of/any_of trees with failing operands; the same W(E) "
          "oracle with conditions as waiters: a condition handles an operand's failure only by failing itself, so an operand "
          "failing after the condition was decided still has to make step() raise."),
    facets=[Facet("programs", strategy, run_case, quick=3000, thorough=20000,
                  essential=["multi-waiter", "already-processed yield", "double trigger", "unhandled failure raises",
                             "child raises -> joiner", "callback+process waiters", "chained event (trigger callback)",
                             "chained to a failure that an earlier waiter handled"]),
            Facet("until_event", until_strategy, run_until, quick=1200, thorough=8000,
                  essential=["until-event with later waiters", "until-event with earlier waiters"]),
            Facet("condition_waiters", cond_strategy, run_cond, quick=1500, thorough=8000,
                  essential=["operand fails first", "operand fails after trigger"])],
    assumptions=["exceptions are compared by type name and args", "state of an environment after step() raised is not judged"],
)
