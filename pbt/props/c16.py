"""C16 - TCP acknowledgements are cumulative and correct; all data gets through (DESIGN 4/C16)."""
import itertools
from math import inf

from hypothesis import strategies as st

from onl.netdev import Wire
from onl.packet import Packet, TCPCubic, TCPPacketGenerator, TCPReno, TCPSink
from onl.packet.tcp_generator import Flow

from ..core import kgen, netlab
from ..core.common import HarnessError, Inconclusive, Violation, crash
from ..core.netlab import Lab
from ..runner import Facet, Property

MSS = 512
HORIZON = 1e9


def prefix_len(ranges):
    """length of the contiguous byte prefix [0, n) of a set of received MSS slots"""
    n = 0
    while n in ranges:
        n += 1
    return n * MSS


def run_sink(case):
    """case['arrivals'] = [[slot, nslots], ...]: segment starting at byte slot*MSS, nslots*MSS long"""
    lab = Lab(clause="C16.no_exception")
    sink = TCPSink(lab.env)
    out = lab.tap("acks")
    sink.out = out
    got = set()
    classes = set()
    last = 0
    gap_filled = dup = False
    for i, (slot, n) in enumerate(case["arrivals"]):
        pkt = Packet(time=float(i), size=n * MSS, packet_id=slot * MSS, flow_id=7, src="s")
        before = len(out.recs)
        newslots = set(range(slot, slot + n))
        if newslots <= got:
            dup = True
        had_gap = prefix_len(got) < (max(got) + 1) * MSS if got else False
        got |= newslots
        try:
            sink.put(pkt)
        except Exception as e:
            raise crash("C16.no_exception", e, f"at arrival #{i + 1} {case['arrivals'][:i + 1]}")
        if len(out.recs) != before + 1:
            raise Violation("C16.ack_per_arrival", f"arrival #{i + 1} produced {len(out.recs) - before} ACKs", "C16.ack_per_arrival")
        ack = out.recs[-1].pkt
        want = prefix_len(got)
        if had_gap and want > last and want >= (slot + n) * MSS and prefix_len(got - newslots) < want:
            gap_filled = True
        if ack.ack != want:
            raise Violation("C16.cumulative_ack", f"after arrivals {[(s * MSS, (s + k) * MSS) for s, k in case['arrivals'][:i + 1]]} the "
                                                  f"contiguous prefix is [0, {want}) but the ACK says {ack.ack}",
                            "C16.cumulative_ack/" + ("low" if ack.ack < want else "high"))
        if ack.ack < last:
            raise Violation("C16.ack_monotone", f"ACK went from {last} to {ack.ack}", "C16.ack_monotone")
        last = ack.ack
        if ack.flow_id != 7 + 10000 or ack.packet_id != pkt.packet_id:
            raise Violation("C16.ack_fields", f"ACK flow_id={ack.flow_id} packet_id={ack.packet_id}", "C16.ack_fields")
    if gap_filled:
        classes.add("gap later filled")
    if dup:
        classes.add("duplicate arrival")
    if case["arrivals"][0][0] != 0:
        classes.add("first segment missing at first")
    if any(n > 1 for _, n in case["arrivals"]):
        classes.add("multi-MSS segment")
    return {"nontrivial": gap_filled and dup, "classes": sorted(classes)}


def sink_strategy(tier):
    big = tier == "thorough"
    seg = kgen.weighted([(st.tuples(st.integers(0, 7), st.just(1)), 5), (st.tuples(st.integers(0, 6), st.integers(2, 3)), 1)])
    return st.fixed_dictionaries({"arrivals": st.lists(seg.map(list), min_size=2, max_size=16)})


def sink_exhaustive(tier, shard, nshards):
    """bounded-exhaustive: all sequences over 5 (quick: 4) slots up to length 6 (quick: 5)"""
    slots, maxlen = (5, 6) if tier == "thorough" else (4, 5)
    i = 0
    for ln in range(1, maxlen + 1):
        for seq in itertools.product(range(slots), repeat=ln):
            if i % nshards == shard:
                yield {"arrivals": [[s, 1] for s in seq]}
            i += 1


# ------------------------------------------------------------------------------------------ end to end
def run_e2e(case):
    lab = Lab(clause="C16.no_exception", budget=80000)
    env = lab.env
    size = case["nseg"] * MSS
    cc = TCPCubic() if case["cc"] == "cubic" else TCPReno()
    fin = case.get("finish") or inf       # a flow may also be bounded in time: it stops producing new data at finish_time
    flow = Flow(flow_id=1, src="snd", dst="rcv", finish_time=fin, size=size)
    snd = TCPPacketGenerator(env, flow, cc, element_id="snd", rtt_estimate=case["rtt0"])
    sink = TCPSink(env)
    w1 = Wire(env, lambda: case["d1"])
    w2 = Wire(env, lambda: case["d2"])
    data_tap = lab.tap("data", w1)
    ack_tap = lab.tap("acks", w2)
    data_tap.drop = set(case["drop_data"])
    ack_tap.drop = set(case["drop_ack"])
    snd.out = data_tap
    w1.out = sink
    sink.out = ack_tap
    w2.out = snd
    rto_ok = {"v": True}
    rtt = case["d1"] + case["d2"]

    def on_data(rec):
        if not (rtt < snd.rto):
            rto_ok["v"] = False
    data_tap.on_put = on_data

    def done():
        if fin == inf:
            return snd.last_ack == size and sink.recv_buffer == [[0, size]]
        # bounded in time: everything that was sent has to get through - the flow ends where the sender stopped producing
        end = snd.next_seq
        return (end == size or env.now >= fin) and snd.last_ack == end and sink.recv_buffer == ([[0, end]] if end else [])
    finished_at = None
    while env.peek() < HORIZON:
        lab.steps += 1
        if lab.steps > lab.budget:
            raise Inconclusive("step budget")
        try:
            env.step()
        except Exception as e:
            lab.check()
            raise crash("C16.no_exception", e, f"at t={env.now} after {len(data_tap.recs)} data / {len(ack_tap.recs)} ACK transmissions")
        lab.check()
        if finished_at is None and done():
            finished_at = env.now
    if not done():
        raise Violation("C16.reliability", f"agenda {'empty' if env.peek() == inf else 'beyond the horizon'} at t={env.now}: sender "
                                           f"last_ack={snd.last_ack} of {size if fin == inf else snd.next_seq}, sink holds {sink.recv_buffer}; {len(data_tap.recs)} data "
                                           f"and {len(ack_tap.recs)} ACK transmissions", "C16.reliability")
    if env.peek() != inf:
        # After a long outage the backed-off RTO can exceed the horizon; the sleepers of timers that were stopped when their
        # segment was acknowledged stay on the agenda until then (they fire nothing). Only a timer that is still armed counts.
        armed = [k for k, t in getattr(snd, "timers", {}).items() if not getattr(t, "stopped", False)]
        if armed:
            raise Violation("C16.quiescence", f"retransmission timers of segments {sorted(armed)[:5]} still armed after everything "
                                              f"was acknowledged", "C16.quiescence")
    classes = set()
    n_data = len(data_tap.recs)
    dropped_d = [i for i in case["drop_data"] if i < n_data]
    dropped_a = [i for i in case["drop_ack"] if i < len(ack_tap.recs)]
    if dropped_d:
        classes.add("data drop")
    if dropped_a:
        classes.add("ACK drop")
    if 0 in dropped_d:
        classes.add("first segment dropped")
    if fin != inf:
        classes.add("flow bounded in time")
        if snd.next_seq < size:
            classes.add("flow ended by its finish time with data outstanding or unsent")
    ids = [r.snap[0] for r in data_tap.recs]
    if len(ids) > len(set(ids)):
        classes.add("retransmission")
    if not dropped_d and not dropped_a and rto_ok["v"]:
        classes.add("loss-free, rtt < RTO")
        n_expected = case["nseg"] if fin == inf else snd.next_seq // MSS
        if len(ids) != len(set(ids)) or len(ids) != n_expected:
            dup = sorted({i for i in ids if ids.count(i) > 1})
            raise Violation("C16.no_spurious_retx", f"loss-free path with rtt {rtt} < RTO throughout, but segments {dup[:5]} were "
                                                    f"transmitted more than once ({len(ids)} transmissions for {case['nseg']} segments)",
                            "C16.no_spurious_retx")
    nt = bool(dropped_d) and bool(dropped_a) and case["nseg"] >= 4
    return {"nontrivial": nt, "classes": sorted(classes)}


def e2e_strategy(tier):
    big = tier == "thorough"
    drops = st.lists(st.integers(0, 30), max_size=6, unique=True)
    lossy = st.fixed_dictionaries({
        "cc": st.sampled_from(["reno", "reno", "cubic"]),
        "nseg": st.integers(1, 40 if big else 24),
        "rtt0": st.sampled_from([1.0, 0.5, 0.25, 2.0, 0.1]),
        "d1": st.sampled_from([0.125, 0.25, 0.5, 0.01, 0.1, 0]),
        "d2": st.sampled_from([0.125, 0.25, 0.5, 0.01, 0.1, 0]),
        "drop_data": drops, "drop_ack": drops})
    clean = st.fixed_dictionaries({
        "cc": st.sampled_from(["reno", "cubic"]),
        "nseg": st.integers(1, 40),
        "rtt0": st.sampled_from([1.0, 0.5, 2.0]),
        "d1": st.sampled_from([0.125, 0.25, 0.01, 0.1]),
        "d2": st.sampled_from([0.125, 0.25, 0.01, 0.1]),
        "drop_data": st.just([]), "drop_ack": st.just([])})
    # a long outage: every transmission in a window of 6-14 consecutive ones is lost (data, ACKs or both), so that the same
    # segment is lost many times in a row and the retransmission timer backs off a long way
    def window(t):
        return list(range(t[0], t[0] + t[1]))
    win = st.tuples(st.integers(0, 12), st.integers(6, 14)).map(window)
    outage = st.fixed_dictionaries({
        "cc": st.sampled_from(["reno", "cubic"]),
        "nseg": st.integers(1, 16),
        "rtt0": st.sampled_from([1.0, 0.5, 2.0, 16.0, 40.0]),
        "d1": st.sampled_from([0.125, 0.5, 0.01]),
        "d2": st.sampled_from([0.125, 0.5, 0.01]),
        # one window only, on the data or on the ACK path: every loss can double the RTO once, and the bounded form of
        # "eventually" (the 1e9 s horizon) must stay far above rto0 * 2**losses
        "which": st.sampled_from(["data", "data", "ack"]), "win": win}).map(
        lambda d: dict({k: v for k, v in d.items() if k not in ("which", "win")},
                       drop_data=d["win"] if d["which"] == "data" else [], drop_ack=d["win"] if d["which"] == "ack" else []))
    timed = lossy.flatmap(lambda c: st.sampled_from([0.5, 1, 2.5, 5, 1.05]).map(lambda f: dict(c, finish=f)))
    return kgen.weighted([(lossy, 4), (clean, 1), (outage, 1), (timed, 1)])


PROP = Property(
    "C16",
    rule=("(sink) TCPSink fed generated arrival sequences of MSS-aligned segments over 8 slots, length <=16, with reordering, "
          "duplicates, gaps, first segment missing, multi-MSS segments; plus a bounded-exhaustive enumeration of all sequences "
          "over 4 (thorough 5) slots up to length 5 (6). Oracle: every ACK's number == length of the contiguous prefix [0,n) of "
          "the union of byte ranges received so far (set of slots), non-decreasing, one ACK per arrival with flow_id+10000. "
          "Non-trivial = a gap later filled and a duplicate. (e2e) TCPPacketGenerator(n*MSS, Reno/CUBIC, rtt_estimate) -> "
          "drop-tap -> Wire(d1) -> TCPSink -> drop-tap -> Wire(d2) -> sender with finite drop sets by transmission index on data "
          "and ACKs. Oracle: the run ends (agenda empty before the 1e9 s horizon) with sender.last_ack == size and the sink "
          "holding [[0,size]], no exception at any step; loss-free and rtt < RTO at every send => every segment crosses the "
          "data tap exactly once. Non-trivial = >=1 data drop and >=1 ACK drop with >=4 segments."),
    facets=[Facet("sink", sink_strategy, run_sink, quick=2500, thorough=8000, exhaustive=sink_exhaustive,
                  essential=["gap later filled", "duplicate arrival", "first segment missing at first", "multi-MSS segment"]),
            Facet("e2e", e2e_strategy, run_e2e, quick=1500, thorough=6000,
                  essential=["data drop", "ACK drop", "first segment dropped", "retransmission", "loss-free, rtt < RTO",
                             "flow ended by its finish time with data outstanding or unsent"])],
    assumptions=["liveness is judged in bounded form: agenda exhaustion or the 1e9 s horizon; step budget => inconclusive"],
)
