"""C10 - a wire delays each packet by its drawn delay, keeps order, loses only by rate (DESIGN 4/C10)."""
import random as pyrandom
from fractions import Fraction
from math import comb

from hypothesis import strategies as st

import onl.netdev.wire as wire_mod
from onl.netdev import Cable, Wire

from ..core import kgen, netlab
from ..core.common import HarnessError, Violation
from ..core.netlab import F, Lab
from ..runner import Facet, Property
from .c09 import ConstRandom


def close(a, b, exact):
    if exact:
        return F(a) == F(b)
    return abs(a - b) <= 1e-12 * max(1.0, abs(a), abs(b))


def check_same(rin, rout):
    if rin.pkt is not rout.pkt:
        raise Violation("C08.identity", "a different packet object left the wire", "C08.identity/wire")
    if rin.snap != rout.snap:
        raise Violation("C08.fields", f"fields changed on the wire: {rin.snap} -> {rout.snap}", "C08.fields/wire")


def run_noloss(case):
    """(a) no loss: packet k delivered at max(a_k + d_k, delivery_{k-1}), in order, exactly once"""
    lab = Lab(clause="C10.no_exception")
    exact = case["exact"]
    delays = list(case["delays"])
    calls = []

    def dist():
        d = delays[len(calls) % len(delays)]
        calls.append((lab.env.now, d))
        return d
    wire = Wire(lab.env, dist, loss_rate=case["loss_rate"])
    out = lab.tap("out")
    wire.out = out
    entry = lab.tap("in", wire)
    pkts = lab.inject(entry, case["wl"])
    # packets may have crossed another wire before: their current_time field carries a stale stamp
    for pkt, stale in zip(pkts, case.get("prestamp", [])):
        pkt.current_time = stale
    # packet ids are unique per flow only: every generator counts from 1, every TCP flow from sequence 0
    if case.get("idmod"):
        for i, pkt in enumerate(pkts):
            pkt.packet_id = 1 + i % case["idmod"]
    # and they were created some time before they reach this wire (queues, earlier hops): creation time != entry time
    for pkt, age in zip(pkts, case.get("ages", [])):
        pkt.time = pkt.time - age
    lab.run()
    ins, outs = entry.recs, out.recs
    if len(calls) != len(ins):
        raise Violation("C10.draws", f"{len(calls)} delay draws for {len(ins)} packets", "C10.draws")
    if len(outs) != len(ins):
        raise Violation("C10.delivered_once", f"{len(ins)} packets entered, {len(outs)} delivered (no loss configured)",
                        "C10.delivered_once/" + ("fewer" if len(outs) < len(ins) else "more"))
    prev = None
    clamp = free = 0
    classes_neg = []
    for k, (ri, ro) in enumerate(zip(ins, outs)):
        check_same(ri, ro)
        d = calls[k][1]
        if d < 0:
            # a jittered distribution may draw below zero: a + d lies before the packet's own entry, so it is due at once -
            # it cannot leave before it entered, and it must not be held for |d| either
            classes_neg.append(d)
            d = 0
        own = F(ri.now) + F(d) if exact else ri.now + d
        want = own if prev is None else max(own, prev)
        if prev is not None and own < prev:
            clamp += 1
        else:
            free += 1
        if not close(float(want), ro.now, exact):
            raise Violation("C10.delivery_instant", f"packet {k + 1} entered at {ri.now!r} with drawn delay {d!r}, previous delivery "
                                                    f"{prev if prev is None else float(prev)!r}: delivered at {ro.now!r}, expected {float(want)!r}",
                            "C10.delivery_instant/" + ("early" if ro.now < float(want) else "late"))
        prev = F(ro.now) if exact else ro.now
    classes = set()
    if clamp:
        classes.add("held back by predecessor (clamp)")
    if free:
        classes.add("own delay decides")
    if any(d == 0 for _, d in calls):
        classes.add("zero delay")
    if classes_neg:
        classes.add("negative draw (due at once)")
    if case.get("idmod"):
        classes.add("packets of different flows share packet ids")
    if any(0 < (d % (2 ** -20)) for _, d in calls):
        classes.add("sub-nanosecond delay component")
    if any(a for a in case.get("ages", [])[:len(ins)]):
        classes.add("packet older than its entry into the wire")
    if case["loss_rate"] == 0:
        classes.add("loss rate 0")
    return {"nontrivial": clamp > 0 and free > 1, "classes": sorted(classes)}


def run_shared(case):
    """the same packet objects travel over several wires at once (a hub repeats a packet without copying it): every wire must
    obey the delivery law on its own, whatever the others do with the packet meanwhile"""
    lab = Lab(clause="C10.no_exception")
    wires = []
    for wi, delays in enumerate(case["wires"]):
        calls = []

        def dist(delays=delays, calls=calls):
            d = delays[len(calls) % len(delays)]
            calls.append(d)
            return d
        w = Wire(lab.env, dist, wire_id=wi)
        out = lab.tap(f"out{wi}")
        w.out = out
        entry = lab.tap(f"in{wi}", w)
        wires.append((entry, out, calls))

    class Repeat:
        def put(self, pkt):
            for entry, _, _ in wires:
                entry.put(pkt)
    lab.inject(Repeat(), case["wl"])
    lab.run()
    clamped = 0
    for wi, (entry, out, calls) in enumerate(wires):
        if len(out.recs) != len(entry.recs) or len(calls) != len(entry.recs):
            raise Violation("C10.delivered_once", f"wire {wi}: {len(entry.recs)} entered, {len(out.recs)} delivered, {len(calls)} draws",
                            "C10.delivered_once/shared")
        prev = None
        for k, (ri, ro) in enumerate(zip(entry.recs, out.recs)):
            if ri.pkt is not ro.pkt:
                raise Violation("C10.order", f"wire {wi}: packets left in a different order", "C10.order/shared")
            own = F(ri.now) + F(calls[k])
            want = own if prev is None else max(own, prev)
            if prev is not None and own < prev:
                clamped += 1
            if F(ro.now) != want:
                raise Violation("C10.delivery_instant", f"wire {wi} (delays {case['wires'][wi]}): packet {k + 1} entered at {ri.now!r} with "
                                                        f"drawn delay {calls[k]!r}, previous delivery {prev if prev is None else float(prev)!r}: "
                                                        f"delivered at {ro.now!r}, expected {float(want)!r} (the same packet object is "
                                                        f"also travelling over {len(wires) - 1} other wire(s))",
                                "C10.delivery_instant/shared-object")
            prev = F(ro.now)
    classes = {"same objects on %d wires" % len(wires)}
    if clamped:
        classes.add("held back by predecessor (clamp)")
    return {"nontrivial": clamped > 0 and len(wires) >= 2, "classes": sorted(classes)}


def shared_strategy(tier):
    dl = st.lists(st.sampled_from([0, 1 / 8, 0.5, 1, 2, 4, 8]), min_size=1, max_size=5)
    wl = netlab.workload([0, 1], n_max=25, exact=True, min_size=3, late=False)
    return st.fixed_dictionaries({"wires": st.lists(dl, min_size=2, max_size=3), "wl": wl})


def binom_band(n, p, alpha=Fraction(1, 2 * 10 ** 9)):
    """[lo, hi] such that P(X < lo) <= alpha and P(X > hi) <= alpha for X ~ Bin(n, p)"""
    p = Fraction(p)
    pmf = [comb(n, k) * p ** k * (1 - p) ** (n - k) for k in range(n + 1)]
    lo, acc = 0, Fraction(0)
    while lo <= n and acc + pmf[lo] <= alpha:
        acc += pmf[lo]
        lo += 1
    hi, acc = n, Fraction(0)
    while hi >= 0 and acc + pmf[hi] <= alpha:
        acc += pmf[hi]
        hi -= 1
    return lo, hi


def run_loss(case):
    """(b) loss with a constant delay: delivered packets arrive at exactly a+d, lost ones never and delay nobody"""
    lab = Lab(clause="C10.no_exception")
    exact = case["exact"]
    d = case["delay"]
    p = case["loss_rate"]
    if case["mode"] == "const":
        script = ConstRandom(case["u"])
    else:
        script = pyrandom.Random(case["rseed"])
    old = wire_mod.random
    wire_mod.random = script
    try:
        wire = Wire(lab.env, lambda: d, loss_rate=p)
        out = lab.tap("out")
        wire.out = out
        entry = lab.tap("in", wire)
        lab.inject(entry, case["wl"])
        lab.run()
    finally:
        wire_mod.random = old
    ins, outs = entry.recs, out.recs
    by_obj = {id(r.pkt): r for r in ins}
    seen = set()
    last = -1
    for ro in outs:
        ri = by_obj.get(id(ro.pkt))
        if ri is None:
            raise Violation("C08.invented", "a packet that never entered left the wire", "C08.invented/wire")
        if id(ro.pkt) in seen:
            raise Violation("C10.delivered_once", f"packet {ro.snap[0]} delivered twice", "C10.delivered_once/twice")
        seen.add(id(ro.pkt))
        check_same(ri, ro)
        if ri.seq < last:
            raise Violation("C10.order", f"packet {ro.snap[0]} overtook a later one", "C10.order")
        last = ri.seq
        want = F(ri.now) + F(d) if exact else ri.now + d
        if not close(float(want), ro.now, exact):
            raise Violation("C10.delivery_instant", f"packet {ro.snap[0]} entered at {ri.now!r}, constant delay {d!r}: delivered at "
                                                    f"{ro.now!r} (a lost packet must delay nobody)", "C10.delivery_instant/loss")
    n, lost = len(ins), len(ins) - len(outs)
    classes = set()
    if p in (None, 0):
        if lost:
            raise Violation("C10.loss", f"{lost} of {n} packets lost with loss_rate={p}", "C10.loss/spurious")
        classes.add("no loss configured")
    elif p == 1:
        if lost != n:
            raise Violation("C10.loss", f"only {lost} of {n} packets lost with loss_rate=1", "C10.loss/rate1")
        classes.add("loss rate 1")
    elif case["mode"] == "const":
        u = case["u"]
        if u < p - 1e-9 and lost != n:
            raise Violation("C10.loss", f"draw u={u} < p={p}: every packet must be lost, {n - lost} delivered", "C10.loss/const-low")
        if u > p + 1e-9 and lost != 0:
            raise Violation("C10.loss", f"draw u={u} > p={p}: nothing may be lost, {lost} lost", "C10.loss/const-high")
        classes.add("constant draw below p" if u < p else "constant draw above p")
    else:
        lo, hi = binom_band(n, Fraction(p).limit_denominator(1000))
        if not (lo <= lost <= hi):
            raise Violation("C10.loss", f"{lost} of {n} lost at p={p}: outside the 1e-9 binomial band [{lo}, {hi}]", "C10.loss/frequency")
        classes.add("seeded draws")
        if 0 < lost < n:
            classes.add("some lost, some delivered")
    return {"nontrivial": n >= 5 and (0 < lost < n or case["mode"] == "const"), "classes": sorted(classes)}


def run_loss_varying(case):
    """loss together with varying delays. No draw-to-packet mapping is assumed: a delivered packet's delay is some draw made
    between its entry and its delivery, so delivery_k must lie in
    [a_k + min(draws in that window), max(a_k + max(draws in that window), delivery of the previous delivered packet)]."""
    lab = Lab(clause="C10.no_exception")
    delays = list(case["delays"])
    calls = []

    def dist():
        d = delays[len(calls) % len(delays)]
        calls.append((F(lab.env.now), F(d)))
        return d
    old = wire_mod.random
    wire_mod.random = pyrandom.Random(case["rseed"])
    try:
        wire = Wire(lab.env, dist, loss_rate=case["loss_rate"])
        out = lab.tap("out")
        wire.out = out
        entry = lab.tap("in", wire)
        lab.inject(entry, case["wl"])
        lab.run()
    finally:
        wire_mod.random = old
    ins, outs = entry.recs, out.recs
    by_obj = {id(r.pkt): r for r in ins}
    prev = None
    last_seq = -1
    seen = set()
    held_back = 0
    for ro in outs:
        ri = by_obj.get(id(ro.pkt))
        if ri is None or id(ro.pkt) in seen:
            raise Violation("C10.delivered_once", "packet delivered twice or never entered", "C10.delivered_once/varying")
        seen.add(id(ro.pkt))
        check_same(ri, ro)
        if ri.seq < last_seq:
            raise Violation("C10.order", f"packet {ro.snap[0]} overtook a later one", "C10.order")
        last_seq = ri.seq
        a, dlv = F(ri.now), F(ro.now)
        window = [d for (t, d) in calls if a <= t <= dlv]
        if not window:
            raise Violation("C10.draws", f"packet {ro.snap[0]} delivered without any delay draw between its entry and delivery",
                            "C10.draws/none")
        lo = a + min(window)
        hi = a + max(window)
        if prev is not None:
            hi = max(hi, prev)
        if dlv < lo:
            raise Violation("C10.delivery_instant", f"packet {ro.snap[0]} entered {ri.now}, delivered {ro.now}: before a + smallest "
                                                    f"candidate delay {float(min(window))}", "C10.delivery_instant/early")
        if dlv > hi:
            raise Violation("C10.delivery_instant", f"packet {ro.snap[0]} entered {ri.now}, delivered {ro.now}: later than both "
                                                    f"a + largest candidate delay ({float(max(window))}) and the previous delivery "
                                                    f"({prev if prev is None else float(prev)}) - held back by a discarded packet?",
                            "C10.delivery_instant/held-by-lost")
        if prev is not None and a + max(window) < prev:
            held_back += 1
        prev = dlv
    lost = len(ins) - len(outs)
    n = len(ins)
    lo, hi = binom_band(n, Fraction(case["loss_rate"]).limit_denominator(1000))
    if not (lo <= lost <= hi):
        raise Violation("C10.loss", f"{lost} of {n} lost at p={case['loss_rate']}: outside the 1e-9 binomial band [{lo}, {hi}]",
                        "C10.loss/frequency")
    classes = set()
    if 0 < lost < n:
        classes.add("some lost, some delivered")
    if held_back:
        classes.add("held back by predecessor (clamp)")
    return {"nontrivial": 0 < lost < n and len(set(delays)) > 1, "classes": sorted(classes)}


def loss_varying_strategy(tier):
    big = tier == "thorough"
    wl = netlab.workload([0, 1], n_max=60 if big else 30, exact=True, min_size=6, late=False)
    dl = st.lists(st.sampled_from([0, 1 / 8, 0.5, 1, 2, 8, 16]), min_size=2, max_size=8)
    return st.fixed_dictionaries({"exact": st.just(True), "delays": dl, "wl": wl,
                                  "loss_rate": st.sampled_from([0.25, 0.5, 0.75]), "rseed": st.integers(0, 10 ** 6)})


def run_cable(case):
    """(c) a Cable is two independent wires, one per direction"""
    lab = Lab(clause="C10.no_exception")
    env = lab.env
    d1, d2 = case["d1"], case["d2"]
    cab = {}

    def dist():
        return d1 if env.active_process is cab["c"].wire1.action else d2
    p = case.get("loss_rate")
    cable = Cable(env, dist) if p is None and case.get("ctor_default", True) else Cable(env, dist, p)
    cab["c"] = cable
    lose = bool(p) and p > 0.5          # the uniform draw is pinned to 0.5 below

    class End:
        def __init__(self, name):
            self.name = name
            self.out = None
            self.recs = []
            self.element_id = name

        def put(self, pkt):
            lab.seq += 1
            self.recs.append(netlab.Rec(lab.seq, env.now, pkt, lab.steps))
    a, b = End("A"), End("B")
    cable.set_endpoints(a, b)
    sent = {"A": [], "B": []}

    class Sender:
        def __init__(self, end):
            self.end = end

        def put(self, pkt):
            lab.seq += 1
            sent[self.end.name].append(netlab.Rec(lab.seq, env.now, pkt, lab.steps))
            self.end.out.put(pkt)
    lab.inject(Sender(a), case["wl_a"], src_prefix="A")
    lab.inject(Sender(b), case["wl_b"], src_prefix="B")
    old = wire_mod.random
    wire_mod.random = ConstRandom(0.5)
    try:
        lab.run()
    finally:
        wire_mod.random = old
    for src, dst, other, d in (("A", b, a, d1), ("B", a, b, d2)):
        got = [r for r in dst.recs if str(r.snap[2]).startswith(src)]
        stray = [r for r in other.recs if str(r.snap[2]).startswith(src)]
        if stray:
            raise Violation("C10.cable", f"a packet sent by {src} came back to {src}", "C10.cable/crosswired")
        if lose:
            if got:
                raise Violation("C10.cable", f"loss_rate={p} (draw 0.5): {len(got)} of {len(sent[src])} packets sent by {src} were "
                                             f"delivered; each direction is a wire with the cable's loss rate", "C10.cable/loss")
            continue
        if len(got) != len(sent[src]):
            raise Violation("C10.cable", f"{len(sent[src])} packets sent by {src}, {len(got)} reached the other end", "C10.cable/count")
        for rs, rg in zip(sent[src], got):
            check_same(rs, rg)
            if F(rg.now) != F(rs.now) + F(d):
                raise Violation("C10.cable", f"direction {src}->: entered {rs.now}, delay {d}, delivered {rg.now} (the other direction "
                                             f"has delay {d2 if src == 'A' else d1})", "C10.cable/independent")
    classes = ["both directions" if case["wl_a"] and case["wl_b"] else "one direction"]
    if p:
        classes.append("lossy cable: everything lost" if lose else "lossy cable: draw above the rate")
    return {"nontrivial": bool(case["wl_a"]) and bool(case["wl_b"]) and d1 != d2, "classes": classes}


def run_reconf(case):
    """the wire's parameters are plain public attributes (the library configures everything by attribute assignment - `out`,
    Cable's two wires); they are reassigned only at instants at which the wire is empty and idle, so which parameters apply
    to which packet is unambiguous: those in force while the packet is in the wire"""
    lab = Lab(clause="C10.no_exception")
    env = lab.env
    phases = case["phases"]            # [[gap, loss_rate, delay, [[offset, size], ...]], ...]
    old = wire_mod.random
    wire_mod.random = ConstRandom(0.5)
    try:
        first = phases[0]
        if case["ctor"]:
            wire = Wire(env, (lambda d=first[2]: d), loss_rate=first[1])
        else:
            wire = Wire(env, lambda: 1000, loss_rate=1)
            wire.delay_dist = (lambda d=first[2]: d)
            wire.loss_rate = first[1]
        out = lab.tap("out")
        wire.out = out
        entry = lab.tap("in", wire)
        t = F(0)
        wl, phase_of = [], []
        for i, (gap, p, d, arr) in enumerate(phases):
            if i:
                # the previous phase's packets are all delivered by t + its delay; reassign strictly after that
                t += F(phases[i - 1][2]) + F(gap)

                def reassign(_e, p=p, d=d):
                    wire.loss_rate = p
                    wire.delay_dist = (lambda d=d: d)
                ev = env.timeout(float(t) - env.now)
                ev.callbacks.append(reassign)
                t += F(case["after"])
            for off, size in arr:
                wl.append([float(t + F(off)), 0, size, None, 0])
                phase_of.append(i)
            t += max([F(o) for o, _ in arr], default=F(0))
        pkts = lab.inject(entry, wl)
        lab.run()
    finally:
        wire_mod.random = old
    by_obj = {id(r.pkt): r for r in out.recs}
    lost_phases = delivered_phases = 0
    for i, (gap, p, d, arr) in enumerate(phases):
        mine = [r for r, ph in zip(entry.recs, phase_of) if ph == i] if len(entry.recs) == len(phase_of) else None
        if mine is None:
            raise HarnessError("entry tap lost arrivals")
        lose = bool(p) and 0.5 < p
        if mine:
            if lose:
                lost_phases += 1
            else:
                delivered_phases += 1
        for ri in mine:
            ro = by_obj.get(id(ri.pkt))
            if lose and ro is not None:
                raise Violation("C10.loss", f"phase {i}: loss_rate={p} (draw 0.5) when packet {ri.snap[0]} entered at {ri.now}, yet it "
                                            f"was delivered at {ro.now}", "C10.loss/reconfigured")
            if not lose:
                if ro is None:
                    raise Violation("C10.delivered_once", f"phase {i}: loss_rate={p} (draw 0.5) when packet {ri.snap[0]} entered at "
                                                          f"{ri.now}, never delivered", "C10.delivered_once/reconfigured")
                check_same(ri, ro)
                if F(ro.now) != F(ri.now) + F(d):
                    raise Violation("C10.delivery_instant", f"phase {i}: delay {d} in force when packet {ri.snap[0]} entered at {ri.now}; "
                                                            f"delivered at {ro.now}", "C10.delivery_instant/reconfigured")
    if len(out.recs) != sum(1 for r, ph in zip(entry.recs, phase_of) if not (phases[ph][1] and phases[ph][1] > 0.5)):
        raise Violation("C10.delivered_once", "more deliveries than packets that had to be delivered", "C10.delivered_once/reconf-more")
    classes = set()
    if len(phases) >= 2:
        classes.add("parameters reassigned while idle")
        if len({ph[1] for ph in phases}) >= 2 and lost_phases and delivered_phases:
            classes.add("loss rate changed between phases")
        if len({ph[2] for ph in phases}) >= 2:
            classes.add("delay changed between phases")
    if not case["ctor"]:
        classes.add("parameters assigned after construction, before the run")
    return {"nontrivial": len(phases) >= 2 and lost_phases + delivered_phases >= 2, "classes": sorted(classes)}


def reconf_strategy(tier):
    arr = st.lists(st.tuples(st.sampled_from([0, 0, 1 / 8, 0.5, 1, 3]), st.sampled_from([64, 512, 1500])).map(list), min_size=0, max_size=5)
    phase = st.tuples(st.sampled_from([1 / 8, 1, 5]), st.sampled_from([None, 0, 1, 0.25, 0.75, None, 1]),
                      st.sampled_from([0, 1 / 8, 1, 2, 8]), arr).map(list)
    return st.fixed_dictionaries({"phases": st.lists(phase, min_size=1, max_size=5), "ctor": st.booleans(),
                                  "after": st.sampled_from([1 / 8, 1])})


def noloss_strategy(tier):
    big = tier == "thorough"

    def build(exact):
        if exact:
            # incl. delays and delay differences far below a nanosecond (still exact in binary floating point)
            dl = st.lists(kgen.weighted([(st.sampled_from([0, 1 / 1024, 1 / 8, 0.5, 1, 2, 4]), 3),
                                         (st.integers(0, 4096).map(lambda k: k / 1024), 1),
                                         (st.sampled_from([2 ** -32, 3 * 2 ** -33, 0.5 + 2 ** -32, 1 + 2 ** -31, 2 ** -40]), 1),
                                         (st.sampled_from([-0.5, -1 / 8, -2, -2 ** -32]), 1)]),
                          min_size=1, max_size=8)
        else:
            dl = st.lists(st.sampled_from([0.0, 0.001, 0.01, 0.1, 0.3, 0.7, 1.1, 2.5]), min_size=1, max_size=8)
        wl = netlab.workload([0, 1], n_max=50 if big else 25, exact=exact, min_size=3, late=True)
        return st.fixed_dictionaries({"exact": st.just(exact), "delays": dl, "wl": wl, "loss_rate": st.sampled_from([None, None, 0]),
                                      "prestamp": st.lists(st.sampled_from([0, 0, 0.5, 100, 3]), max_size=10),
                                      "ages": st.lists(st.sampled_from([0, 0.5, 2, 8, 0.125, 100]), max_size=10),
                                      "idmod": st.sampled_from([None, None, 1, 2, 3])})
    return kgen.weighted([(build(True), 3), (build(False), 1)])


def loss_strategy(tier):
    big = tier == "thorough"
    wl = netlab.workload([0, 1], n_max=120 if big else 60, exact=True, min_size=5, late=False)
    base = {"exact": st.just(True), "delay": st.sampled_from([0, 0.5, 1, 1 / 8, 3]), "wl": wl}
    const = st.fixed_dictionaries(dict(base, mode=st.just("const"), loss_rate=st.sampled_from([0.1, 0.25, 0.5, 0.9, 0, None, 1]),
                                       u=st.sampled_from([0.0, 0.05, 0.2, 0.3, 0.6, 0.95, 0.999])))
    seeded = st.fixed_dictionaries(dict(base, mode=st.just("seeded"), loss_rate=st.sampled_from([None, 0, 0.1, 0.25, 0.5, 0.9, 1]),
                                        rseed=st.integers(0, 10 ** 6)))
    return kgen.weighted([(const, 1), (seeded, 1)])


def cable_strategy(tier):
    wl = netlab.workload([0, 1], n_max=15, exact=True, min_size=0, late=False)
    return st.fixed_dictionaries({"d1": st.sampled_from([0, 0.5, 1, 4, 8]), "d2": st.sampled_from([0, 0.25, 1, 2]),
                                  "wl_a": wl, "wl_b": wl, "loss_rate": st.sampled_from([None, None, 0, 0.25, 0.75, 1]),
                                  "ctor_default": st.booleans()})


PROP = Property(
    "C10",
    rule=("(noloss) Wire with a scripted delay_dist (constant, decreasing, zero, generated; every call logged) and loss_rate "
          "None/0; workloads with bursts and arrivals while earlier packets propagate, exact (dyadic) and float domains. Oracle: "
          "k-th entry delivered at max(a_k + d_k, delivery_{k-1}) (== in the exact domain, 1e-9 otherwise), same object/fields, "
          "in order, once, one draw per packet. Non-trivial = >=1 packet held back by its predecessor and >=2 not. (loss) constant "
          "delay so that no draw-to-packet mapping is assumed: delivered packets arrive at exactly a+d in order; constant draw u: "
          "u<p all lost, u>p none; seeded draws: number lost inside the 1e-9 two-sided binomial band; p in {None,0} none, p=1 all. "
          "(loss_varying) seeded loss with varying scripted delays, no draw-to-packet mapping assumed: each delivered packet "
          "leaves within [a + min, max(a + max, previous delivery)] over the draws made between its entry and its delivery, so "
          "a discarded packet can delay nobody. (reconfigure) loss_rate / delay_dist attributes assigned after construction and "
          "reassigned at instants at which the wire is empty and idle; every packet obeys the parameters in force while it is in "
          "the wire (constant draw 0.5, constant delay per phase: exact oracle). (cable) two endpoints, per-direction delays: packets reach only the other end at exactly a+d of their direction; a cable's "
          "loss rate (draw pinned to 0.5) applies to both directions."),
    facets=[
        Facet("noloss", noloss_strategy, run_noloss, quick=1200, thorough=8000,
              essential=["held back by predecessor (clamp)", "own delay decides", "zero delay",
                         "packet older than its entry into the wire", "sub-nanosecond delay component",
                         "negative draw (due at once)", "packets of different flows share packet ids"]),
        Facet("loss", loss_strategy, run_loss, quick=600, thorough=4000,
              essential=["constant draw below p", "constant draw above p", "seeded draws", "loss rate 1", "some lost, some delivered"]),
        Facet("loss_varying", loss_varying_strategy, run_loss_varying, quick=600, thorough=4000,
              essential=["some lost, some delivered", "held back by predecessor (clamp)"]),
        Facet("shared_objects", shared_strategy, run_shared, quick=500, thorough=3000,
              essential=["held back by predecessor (clamp)"]),
        Facet("reconfigure", reconf_strategy, run_reconf, quick=500, thorough=3000,
              essential=["loss rate changed between phases", "delay changed between phases",
                         "parameters assigned after construction, before the run"]),
        Facet("cable", cable_strategy, run_cable, quick=300, thorough=1500, essential=["both directions", "lossy cable: everything lost", "lossy cable: draw above the rate"]),
    ],
    assumptions=["frequency clause is statistical (binomial band at 1e-9); independence of draws is not testable beyond that",
                 "a Wire's loss_rate and delay_dist are public attributes; reassigning them while the wire is empty takes effect for "
                 "the packets that enter afterwards (the statement speaks of the wire's loss rate, not of its constructor argument)",
                 "a negative delay draw (jittered distributions) means 'due already': the packet leaves at max(its entry, previous "
                 "delivery) - it can neither leave before it entered nor be held for |d|",
                 "onl.netdev.wire.random is replaced harness-side by a scripted/seeded generator"],
)
