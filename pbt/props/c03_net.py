"""Network scenarios for C03: reproducibility digests and split-run equivalence on generated pipelines (from C08's grammar)."""
import hashlib
import json

from hypothesis import strategies as st

from ..core import common
from ..core.common import Violation, canon
from . import c08


def scenario_strategy(tier):
    def finite(scn):
        # most scenarios have sources that really end (their processes terminate), so that the agenda can run dry while
        # samplers are still active
        if scn["seed"] % 4:
            scn = dict(scn, finite=True, gens=[dict(g, gaps=g["gaps"][:-1] + [g["gaps"][-1] or 0.5]) for g in scn["gens"]])
        return scn
    return c08.pipeline_strategy(tier).map(finite)


def strclass_strategy(tier):
    """scenarios whose schedulers key their classes by strings and keep several classes backlogged: whatever iterates over a
    set/dict of class ids depends on the interpreter's string-hash seed"""
    sched = st.fixed_dictionaries({"type": st.sampled_from(["DRR", "WFQ", "VC", "DRR"]), "rate": st.sampled_from([8192, 8192 * 4]),
                                   "strcls": st.sampled_from([1, 2, 2]), "nouts": st.just(1), "default": st.just(False),
                                   "qlimit": st.just(50), "server": st.sampled_from(["DRR", "WFQ", "VirtualClock"])})
    gen = st.fixed_dictionaries({"gaps": st.lists(st.sampled_from([0, 0, 0, 0.0625, 0.125]), min_size=3, max_size=8),
                                 "sizes": st.lists(st.sampled_from([64, 512, 1024, 1500]), min_size=1, max_size=3),
                                 "d0": st.sampled_from([0, 0, 0.5])})
    return st.fixed_dictionaries({
        "gens": st.lists(gen, min_size=3, max_size=5), "chain": st.lists(sched, min_size=1, max_size=2), "fanout": st.none(),
        "split": st.just(False), "by_src": st.booleans(), "inter": st.booleans(), "finite": st.just(True),
        "monitor": st.one_of(st.none(), st.just([0.5, 1])), "seed": st.integers(0, 10 ** 6)})


def trace_of(case, driver=None):
    tr = []
    c08.run_pipeline(case, driver=driver, trace=tr)
    return json.loads(json.dumps(tr, default=common.jdefault))


def digest_scenario(case):
    try:
        return hashlib.sha256(canon(trace_of(case)).encode()).hexdigest()
    except Violation as v:
        return "VIOL:" + v.signature


def split_driver(stops):
    def drive(lab, until):
        env = lab.env
        for kind, x in stops:
            if kind == "until":
                t = env.now + x
                if t > env.now and t < until:
                    env.run(until=t)
            else:
                for _ in range(x):
                    if env.peek() < until:
                        env.step()
    return drive


def run_net_split(case):
    ref = trace_of(case["scn"])
    got = trace_of(case["scn"], driver=split_driver(case["stops"]))
    if ref != got:
        i = next((i for i, (a, b) in enumerate(zip(ref, got)) if a != b), min(len(ref), len(got)))
        raise Violation("C03.split_equiv", f"network scenario: tap traces differ at entry {i}: uninterrupted {ref[i:i + 1]}, "
                                           f"split {got[i:i + 1]} (lengths {len(ref)}/{len(got)})", "C03.split_equiv/net")
    again = trace_of(case["scn"])
    if again != ref:
        raise Violation("C03.repro", "network scenario: two executions differ", "C03.repro/net")
    classes = ["network scenario split"]
    if any(isinstance(e, list) and e and e[0] == "monitor" for e in ref):
        classes.append("scenario with monitors")
    return {"nontrivial": len(ref) >= 10 and len(case["stops"]) >= 2, "classes": classes}


def net_split_strategy(tier):
    stop = st.one_of(st.tuples(st.just("until"), st.sampled_from([0.125, 0.5, 1, 0.1, 0.0625, 2, 8, 16, 32])),
                     st.tuples(st.just("step"), st.integers(1, 7))).map(list)
    return st.fixed_dictionaries({"scn": scenario_strategy(tier), "stops": st.lists(stop, min_size=2, max_size=8)})
