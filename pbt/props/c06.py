"""C06 - resources never exceed capacity, grant in queue order, never idle a slot, preempt strictly (DESIGN 4/C06).

History = list of groups; a group is either ["adv", dt] or a list of actor commands handed over (mailbox events)
before the instant is drained step by step. Commands are executed *by actor processes* (requests remember the active
process; preemption interrupts it). Oracle = validity predicates over a model built only from observed grants.
"""
from math import inf

from hypothesis import strategies as st

from onl.sim import Environment, Interrupt, PreemptiveResource, PriorityResource, Resource
from onl.sim.events import Interruption
from onl.sim.resources.resource import Preempted, Request

from ..core import kgen
from ..core.common import HarnessError, Inconclusive, Violation, WatchdogTrip, crash
from ..runner import Facet, Property

CLASSES = {"Resource": Resource, "PriorityResource": PriorityResource, "PreemptiveResource": PreemptiveResource}


class HookEnv(Environment):
    hook = None

    def schedule(self, event, priority=1, delay=0):
        if self.hook is not None:
            self.hook(event)
        super().schedule(event, priority, delay)


class Rec:
    def __init__(self, actor, prio, preempt, time, arrival):
        self.req = None
        self.actor = actor
        self.prio = prio
        self.preempt = preempt
        self.time = time
        self.arrival = arrival
        self.state = "creating"
        self.grant_time = None

    def key(self):
        return (self.prio, self.time, not self.preempt)

    def rank(self, fifo):
        return (self.arrival,) if fifo else (self.prio, self.time, not self.preempt, self.arrival)

    def __repr__(self):
        return f"r{self.arrival}(a{self.actor},p{self.prio},{'P' if self.preempt else '-'},{self.state})"


class Machine:
    def __init__(self, case):
        self.case = case
        self.env = HookEnv()
        self.env.hook = self.on_schedule
        self.cls = case["cls"]
        self.fifo = self.cls == "Resource"
        self.res = CLASSES[self.cls](self.env, case["cap"])
        self.cap = case["cap"]
        self.n = case["n"]
        self.cur = [None] * self.n
        self.past = [[] for _ in range(self.n)]
        self.mail = [self.env.event() for _ in range(self.n)]
        self.procs = [self.env.process(self.actor(a)) for a in range(self.n)]
        self.users = []
        self.waiting = []
        self.arrivals = 0
        self.problems = []
        self.creating = None
        self.evictions = []         # (victim rec, preemptor rec, step) awaiting Interrupt delivery
        self.pending_evict_check = []
        self.stats = {}
        self.steps = 0
        self.drain()

    def bump(self, k):
        self.stats[k] = self.stats.get(k, 0) + 1

    def flag(self, clause, detail, sig=None):
        self.problems.append(Violation(clause, detail, sig or clause))

    # ------------------------------------------------------------------ observation of the kernel
    def rec_of(self, req):
        for r in self.users + self.waiting:
            if r.req is req:
                return r
        if self.creating is not None and self.creating.req is None:
            return self.creating
        return None

    def on_schedule(self, event):
        if isinstance(event, Request):
            r = self.rec_of(event)
            if r is None:
                self.flag("C06.model", f"a request unknown to the model was granted: {event}", "C06.model/unknown-grant")
                return
            if r.req is None:
                r.req = event
            self.on_grant(r)
        elif isinstance(event, Interruption):
            cause = event.value.cause if isinstance(event.value, Interrupt) else None
            if isinstance(cause, Preempted):
                self.on_evict(event, cause)
            else:
                self.flag("C06.no_interrupts", "resource interrupted a process without a Preempted cause", "C06.no_interrupts")

    def on_grant(self, r):
        if r.state == "user":
            self.flag("C06.grant_once", f"{r} granted twice", "C06.grant_once")
            return
        if r.state not in ("waiting", "creating"):
            self.flag("C06.grant_live", f"{r} granted although it was {r.state}", "C06.grant_live")
            return
        # P2: best-ranked among the waiting (the one being created counts as waiting)
        cands = list(self.waiting)
        if r.state == "creating":
            cands.append(r)
        best = min(cands, key=lambda x: x.rank(self.fifo))
        if best is not r:
            self.flag("C06.queue_order", f"{r} granted ahead of better-ranked waiting {best}",
                      "C06.queue_order/" + self.cls)
        if len(cands) >= 2:
            self.bump("grant_while_others_wait")
        if len(self.users) >= self.cap:
            self.flag("C06.capacity", f"{r} granted with {len(self.users)} users already (capacity {self.cap})", "C06.capacity/grant")
        if r in self.waiting:
            self.waiting.remove(r)
        r.state = "user"
        r.grant_time = self.env.now
        self.users.append(r)

    def on_evict(self, event, cause):
        if self.cls != "PreemptiveResource":
            self.flag("C06.no_interrupts", f"{self.cls} preempted a user", "C06.no_interrupts/" + self.cls)
            return
        victim = next((r for r in self.users if self.procs[r.actor] is event.process), None)
        if victim is None:
            self.flag("C06.preempt_victim", "preempted process is not a current user", "C06.preempt_victim/nonuser")
            return
        pre = None
        for r in self.waiting + ([self.creating] if self.creating is not None else []):
            if r is not None and self.procs[r.actor] is cause.by:
                pre = r
        if pre is None:
            self.flag("C06.preempt_by", "Preempted.by is not the process of a waiting request", "C06.preempt_by")
            return
        if not pre.preempt:
            self.flag("C06.preempt_flag", f"{pre} has preempt=False but evicted {victim}", "C06.preempt_flag")
        if len(self.users) < self.cap:
            self.flag("C06.preempt_needless", f"{victim} evicted although a slot was free", "C06.preempt_needless")
        worst = max(self.users, key=lambda r: r.rank(False))
        if victim is not worst:
            tie = victim.key() == worst.key()
            self.flag("C06.preempt_worst", f"evicted {victim} although {worst} ranks worse (priority, request time, preempting-first, "
                                           "arrival)", "C06.preempt_worst" + ("/tie" if tie else ""))
        if sum(1 for r in self.users if r.key() == worst.key()) >= 2:
            self.bump("eviction_among_equal_worst_users")
        if not (victim.key() > pre.key()):
            self.flag("C06.preempt_strict", f"{pre} (key {pre.key()}) evicted {victim} (key {victim.key()}) which does not rank "
                                            "strictly worse", "C06.preempt_strict")
        if cause.usage_since != victim.grant_time:
            self.flag("C06.preempt_cause", f"usage_since={cause.usage_since}, victim was granted at {victim.grant_time}",
                      "C06.preempt_cause/usage_since")
        if cause.resource is not self.res:
            self.flag("C06.preempt_cause", "Preempted.resource is not this resource", "C06.preempt_cause/resource")
        best = min(self.waiting + ([self.creating] if self.creating is not None and self.creating.state == "creating" else []),
                   key=lambda x: x.rank(False))
        if best is not pre:
            self.flag("C06.queue_order", f"{pre} preempted although {best} ranks ahead of it in the queue", "C06.queue_order/preempt")
        if self.creating is None or self.creating is not pre:
            self.bump("deferred_eviction")      # the preemptor was already queued; somebody else's action let it in
        self.users.remove(victim)
        victim.state = "evicted"
        self.past[victim.actor].append(victim)
        if self.cur[victim.actor] is victim:
            self.cur[victim.actor] = None
        self.evictions.append((victim, pre, cause))
        self.pending_evict_check.append((victim, pre))
        self.bump("eviction")

    # ------------------------------------------------------------------ actors
    def actor(self, a):
        env = self.env
        while True:
            try:
                cmd = yield self.mail[a]
            except Interrupt as i:
                self.on_interrupt(a, i)
                continue
            self.mail[a] = env.event()
            try:
                self.execute(a, cmd)
            except (HarnessError, WatchdogTrip):
                raise
            except Violation as v:
                self.problems.append(v)
            except BaseException as e:
                self.problems.append(crash("C06.no_exception", e, f"during {cmd}"))

    def on_interrupt(self, a, i):
        cause = i.cause
        ev = next((e for e in self.evictions if e[0].actor == a), None)
        if ev is None or not isinstance(cause, Preempted):
            self.flag("C06.no_interrupts", f"actor {a} interrupted without a matching eviction: {cause!r}", "C06.no_interrupts/actor")
            return
        self.evictions.remove(ev)
        if cause is not ev[2]:
            self.flag("C06.preempt_cause", "victim received a different Preempted object", "C06.preempt_cause/identity")
        self.bump("preempted_delivered")
        if self.react.get(a) == "release":
            # releasing a non-user (already evicted) must be harmless
            self.release(a, ev[0])

    def execute(self, a, cmd):
        op = cmd[0]
        if not self.applicable(cmd):
            self.bump("overtaken_by_same_instant_op")      # e.g. evicted/granted by an earlier command of the group
            return
        if op == "req":
            _, _, prio, preempt = cmd
            r = Rec(a, prio, preempt, self.env.now, self.arrivals)
            self.arrivals += 1
            self.creating = r
            full_before = len(self.users) >= self.cap
            worse_user = any(u.key() > r.key() for u in self.users)
            best_waiting = all(w.key() > r.key() for w in self.waiting)
            waiting_before = bool(self.waiting)
            try:
                if self.fifo:
                    req = self.res.request()
                else:
                    req = self.res.request(priority=prio, preempt=preempt)
            finally:
                self.creating = None
            if r.req is None:
                r.req = req
            elif r.req is not req:
                raise Violation("C06.request", f"{r}: request() returned another object than the one whose creation was observed",
                                "C06.request/identity")
            if r.state == "creating":
                r.state = "waiting"
                self.waiting.append(r)
                if self.cls == "PreemptiveResource" and preempt and full_before and worse_user and best_waiting:
                    self.flag("C06.preempt_if", f"{r} preempting, best-ranked, resource full with a strictly worse user, "
                                                "but nobody was evicted", "C06.preempt_if")
                if self.cls == "PreemptiveResource" and preempt and full_before and not worse_user \
                        and any(u.key() == r.key() for u in self.users):
                    self.bump("equal_key_preempt_refused")
                if self.cls == "PreemptiveResource" and preempt and full_before and worse_user and not best_waiting:
                    self.bump("preempt_behind_blocked_head")
            elif waiting_before:
                self.bump("immediate_grant_while_waiting")
            self.cur[a] = r
        elif op == "rel":
            r = self.cur[a]
            self.release(a, r)
            if r.state == "user":
                raise Violation("C06.release", f"{r} still counts as a user after release() returned", "C06.release/still-user")
        elif op == "cancel":
            r = self.cur[a]
            head = bool(self.waiting) and min(self.waiting, key=lambda x: x.rank(self.fifo)) is r
            # the model forgets the request first: cancelling may grant successors before cancel() returns
            self.waiting.remove(r)
            r.state = "cancelled"
            self.past[a].append(r)
            self.cur[a] = None
            self.bump("cancel_head" if head and self.waiting else "cancel")
            r.req.cancel()
        elif op == "exit":
            r = self.cur[a]
            if r.state == "waiting":
                self.waiting.remove(r)
                r.state = "cancelled"
                self.bump("with_exit_waiting")
            elif r.state == "user":
                self.users.remove(r)
                r.state = "released"
                self.bump("with_exit_user" + ("_queue" if self.waiting else ""))
            self.past[a].append(r)
            self.cur[a] = None
            if cmd[2]:
                r.req.__exit__(ValueError, ValueError("boom"), None)
            else:
                r.req.__exit__(None, None, None)
        elif op == "rel_past":
            r = self.past[a][cmd[2] % len(self.past[a])]
            self.res.release(r.req)
            self.bump("release_nonuser_" + r.state)
        elif op == "rel_waiting":
            r = self.cur[a]
            self.res.release(r.req)          # releasing a request that still waits: harmless, it keeps waiting
            self.bump("release_waiting")
        else:
            raise HarnessError(f"bad op {cmd}")

    def release(self, a, r):
        self.res.release(r.req)
        if r.state == "user":
            self.users.remove(r)
            r.state = "released"
            self.past[a].append(r)
            if self.cur[a] is r:
                self.cur[a] = None
            self.bump("release" + ("_queue" if self.waiting else ""))

    # ------------------------------------------------------------------ driving
    def check(self):
        if self.problems:
            raise self.problems[0]

    def step(self):
        self.steps += 1
        if self.steps > 20000:
            raise Inconclusive("step budget")
        try:
            self.env.step()
        except (HarnessError, WatchdogTrip):
            raise
        except BaseException as e:
            self.check()
            raise crash("C06.no_exception", e)
        self.check()
        res = self.res
        if res.count > res.capacity or res.count != len(res.users):
            raise Violation("C06.capacity", f"count={res.count} capacity={res.capacity}", "C06.capacity")
        for victim, pre in self.pending_evict_check:
            if pre.state != "user":
                raise Violation("C06.preempt_slot", f"{victim} was evicted for {pre} but the slot did not go to it in that step",
                                "C06.preempt_slot")
        self.pending_evict_check = []

    def drain(self):
        env = self.env
        while env.peek() == env.now:
            self.step()
        self.check()
        # model and resource agree on who uses it / who waits
        ru = list(self.res.users)
        if len(ru) != len(self.users) or any(all(x is not r.req for x in ru) for r in self.users):
            raise Violation("C06.users", f"resource users {len(ru)} != granted-and-not-released {self.users}", "C06.users")
        rq = list(self.res.queue)
        if len(rq) != len(self.waiting) or any(all(x is not r.req for x in rq) for r in self.waiting):
            raise Violation("C06.queue", f"resource queue has {len(rq)} entries, model has {self.waiting}", "C06.queue")
        if self.evictions:
            raise Violation("C06.preempt_delivery", f"evicted {self.evictions[0][0]} did not receive its Interrupt in that instant",
                            "C06.preempt_delivery")

    def about_to_advance(self):
        # P3: no request waiting while a slot is free
        if self.waiting and self.res.count < self.res.capacity:
            raise Violation("C06.idle_slot", f"{self.waiting} waiting while {self.res.capacity - self.res.count} slot(s) free",
                            "C06.idle_slot/" + self.cls)
        # the same for the slot a preemptor is entitled to: once the best-ranked waiting request is a preempting one and some user
        # ranks strictly worse, the eviction has happened by the time the clock moves on - also when it only became the head
        # because the request in front of it was cancelled or left its with-block
        if self.cls == "PreemptiveResource" and self.waiting:
            head = min(self.waiting, key=lambda x: x.rank(self.fifo))
            if head.preempt and any(u.key() > head.key() for u in self.users):
                worse = max(self.users, key=lambda u: u.key())
                raise Violation("C06.preempt_if", f"{head} is the best-ranked waiting request, preempting, and user {worse} ranks strictly "
                                                  f"worse, yet nobody was evicted before the clock advanced", "C06.preempt_if/at-advance")

    def applicable(self, cmd):
        op, a = cmd[0], cmd[1] % self.n
        c = self.cur[a]
        if op == "req":
            return c is None
        if op == "rel":
            return c is not None and c.state == "user"
        if op in ("cancel", "rel_waiting"):
            return c is not None and c.state == "waiting"
        if op == "exit":
            return c is not None
        if op == "rel_past":
            return bool(self.past[a])
        return False

    def run(self):
        self.react = {i: r for i, r in enumerate(self.case.get("react", []))}
        for g in self.case["groups"]:
            if g and g[0] == "adv":
                self.about_to_advance()
                target = self.env.now + g[1]
                while self.env.peek() < target:
                    self.step()
                self.env.run(until=target) if target > self.env.now else None
                self.drain()
                continue
            handed = set()
            for cmd in g:
                # construction, not rejection: the index picks among the actors for which the command makes sense now
                cands = [a for a in range(self.n) if a not in handed and self.applicable([cmd[0], a] + list(cmd[2:]))]
                if not cands:
                    continue
                a = cands[cmd[1] % len(cands)]
                cmd = [cmd[0], a] + list(cmd[2:])
                handed.add(a)
                self.mail[a].succeed(cmd)
            if len(handed) >= 2:
                self.bump("coinciding_ops")
            self.drain()
        self.about_to_advance()
        if self.env.peek() != inf:
            raise Violation("C06.quiescent", "events left after the history drained", "C06.quiescent")


def run_case(case):
    m = Machine(case)
    m.run()
    s = m.stats
    classes = {k for k in s}
    nt = bool(s.get("grant_while_others_wait")) and bool(s.get("release_queue") or s.get("cancel_head") or s.get("with_exit_user_queue"))
    if case["cls"] == "PreemptiveResource":
        nt = nt and bool(s.get("eviction")) and bool(s.get("equal_key_preempt_refused"))
    return {"nontrivial": nt, "classes": sorted(classes)}


def strategy_for(cls):
    def strat(tier):
        big = tier == "thorough"
        actor = st.integers(0, 5)
        prio = st.sampled_from([-1, 0, 0, 1, 1, 2, 0.5, -0.5, 1.5])
        req = st.tuples(st.just("req"), actor, prio, st.booleans()).map(list)
        cmd = kgen.weighted([
            (req, 8),
            (st.tuples(st.just("rel"), actor).map(list), 5),
            (st.tuples(st.just("cancel"), actor).map(list), 3),
            (st.tuples(st.just("exit"), actor, st.booleans()).map(list), 2),
            (st.tuples(st.just("rel_past"), actor, st.integers(0, 3)).map(list), 1),
            (st.tuples(st.just("rel_waiting"), actor).map(list), 1),
        ])
        group = kgen.weighted([
            (st.lists(cmd, min_size=1, max_size=1), 4),
            (st.lists(cmd, min_size=2, max_size=4), 3),
            (st.tuples(st.just("adv"), st.sampled_from([1, 0.5, 2, 0.25])).map(list), 2),
        ])
        free = st.fixed_dictionaries({
            "cls": st.just(cls),
            "cap": st.sampled_from([1, 1, 2, 2, 3, 4]),
            "n": st.integers(3, 6),
            "react": st.lists(st.sampled_from(["none", "release"]), min_size=6, max_size=6),
            "groups": st.lists(group, min_size=15, max_size=80 if big else 40),
        })
        if cls != "PreemptiveResource":
            return free
        # deferred preemption: users ranked worst, then a better-ranked head that does not preempt, then a preempting request
        # queued behind it; what happens when the head leaves (cancel / with-exit / grant after a release) is generated
        def prefixed(cap):
            users = [[["req", 0, 2, False]] for _ in range(cap)]
            pre = users + [[["req", 0, 0, False]], [["req", 0, 1, True]]]
            return st.fixed_dictionaries({
                "cls": st.just(cls), "cap": st.just(cap), "n": st.integers(cap + 2, 6),
                "react": st.lists(st.sampled_from(["none", "release"]), min_size=6, max_size=6),
                "groups": st.lists(group, min_size=6, max_size=30).map(lambda g: pre + g)})
        return kgen.weighted([(free, 3), (st.sampled_from([1, 1, 2]).flatmap(prefixed), 1)])
    return strat


# ----------------------------------------------------------------------- two resources, nested with-blocks
def run_nested(case):
    """a process holds a slot of a plain resource B inside the with-block of a PreemptiveResource A; it is preempted on A. However
    the Interrupt travels (caught inside B's block, between the blocks, or outside both), B's slot is handed on the moment the
    holder leaves B's with-block. Reference for B: FIFO multi-server with known holding times."""
    import heapq
    env = Environment()
    A = PreemptiveResource(env, capacity=1)
    B = {"Resource": Resource, "PriorityResource": PriorityResource, "PreemptiveResource": PreemptiveResource}[case["b_cls"]](
        env, capacity=case["cap_b"])
    t1, T, T2, mode = case["t1"], case["hold"], case["hold_after"], case["mode"]
    log, problems = [], []

    def holder():
        try:
            with A.request(priority=5) as ra:
                yield ra
                try:
                    with B.request() as rb:
                        yield rb
                        log.append(("grant", "holder", env.now))
                        try:
                            yield env.timeout(T)
                        except Interrupt:
                            if mode != "inside_b":
                                raise
                            yield env.timeout(T2)
                    log.append(("left_b", env.now))
                except Interrupt:
                    log.append(("left_b", env.now))
                    if mode != "between":
                        raise
                    yield env.timeout(T2)
        except Interrupt:
            if mode != "outside":
                problems.append("the Interrupt left the holder although it had been caught")

    def preemptor():
        yield env.timeout(t1)
        with A.request(priority=1, preempt=True) as r:
            yield r
            log.append(("grant_a", "preemptor", env.now))
            yield env.timeout(1)

    def waiter(i, at, dur):
        yield env.timeout(at)
        with B.request() as r:
            yield r
            log.append(("grant", f"w{i}", env.now))
            yield env.timeout(dur)
    env.process(holder())
    env.process(preemptor())
    for i, (at, dur) in enumerate(case["waiters"]):
        env.process(waiter(i, at, dur))
    try:
        n = 0
        while env.peek() != inf:
            n += 1
            if n > 5000:
                raise Inconclusive("step budget")
            env.step()
    except (Inconclusive, WatchdogTrip):
        raise
    except BaseException as e:
        raise crash("C06.no_exception", e, f"nested with-blocks, mode {mode}")
    if problems:
        raise Violation("C06.preempt_delivery", problems[0], "C06.preempt_delivery/nested")
    # reference: the holder keeps B from 0 until it leaves B's block (t1, or t1 + T2 when it catches the Interrupt inside B's block;
    # T if the preemption comes too late)
    pre = t1 < T
    d_holder = (t1 + T2 if mode == "inside_b" else t1) if pre else T
    reqs = sorted([(0, 0, d_holder, "holder")] + [(at, 1 + i, dur, f"w{i}") for i, (at, dur) in enumerate(case["waiters"])])
    free = [0] * case["cap_b"]
    want = {}
    for arr, _, dur, name in reqs:
        g = max(arr, heapq.heappop(free))
        want[name] = g
        heapq.heappush(free, g + dur)
    got = {e[1]: e[2] for e in log if e[0] == "grant"}
    if got != want:
        raise Violation("C06.no_idle_slot", f"slots of B (capacity {case['cap_b']}) were granted at {got}, a FIFO resource whose first "
                                            f"holder leaves its with-block at t={d_holder} grants at {want} (mode {mode}, preempted on A at "
                                            f"t={t1})", "C06.no_idle_slot/nested")
    if B.count or A.count or B.queue or A.queue:
        raise Violation("C06.users", f"after the run: A {A.count} users/{len(A.queue)} waiting, B {B.count} users/{len(B.queue)} waiting",
                        "C06.users/nested")
    classes = {"nested with-blocks: Interrupt caught " + {"inside_b": "inside the inner block", "between": "between the blocks",
                                                          "outside": "outside both blocks"}[mode]}
    if pre and any(at <= d_holder for at, _ in case["waiters"]):
        classes.add("waiter inherits the slot the preempted holder gave up")
    return {"nontrivial": pre and len(case["waiters"]) >= 1, "classes": sorted(classes)}


def nested_strategy(tier):
    return st.fixed_dictionaries({
        "b_cls": st.sampled_from(["Resource", "Resource", "PriorityResource", "PreemptiveResource"]),
        "cap_b": st.sampled_from([1, 1, 2]), "t1": st.sampled_from([1, 2, 3, 0.5, 8]), "hold": st.sampled_from([4, 6, 5]),
        "hold_after": st.sampled_from([0, 1, 2.5]), "mode": st.sampled_from(["outside", "between", "inside_b"]),
        "waiters": st.lists(st.tuples(st.sampled_from([0, 0.5, 1, 2, 3, 4]), st.sampled_from([1, 2, 0.5])).map(list), min_size=1, max_size=4)})


PROP = Property(
    "C06",
    rule=("Histories of request(priority, preempt)/release/cancel/with-exit(normal|exception)/release-of-past-request/"
          "release-of-waiting-request commands, handed to 2-6 actor processes in groups (a group = several commands at one "
          "instant, drained step by step) and clock advances, on Resource/PriorityResource/PreemptiveResource of capacity "
          "1-4. Oracle (model built only from observed grants = request events being triggered): count<=capacity after every "
          "kernel step; every grant goes to the best-ranked waiting request (arrival order / (priority, time, preempt-first, "
          "arrival)); at every clock advance no request waits while a slot is free; users/queue equal the model after each "
          "instant; no command raises; evictions only by a preempt=True request at the head of the queue, of a worst-keyed "
          "user ranked strictly worse, with Preempted(by, usage_since, resource) delivered in that instant and the slot "
          "given to the preemptor in the same step; a head preempting request facing a strictly worse user must evict; "
          "non-preemptive classes never interrupt. Non-trivial = a grant made while another request kept waiting AND a "
          "release/cancel/with-exit with a non-empty queue (for PreemptiveResource also >=1 eviction and >=1 refused "
          "equal-key preemption). Facet nested: a process holding a slot of a second resource B inside the with-block of a "
          "PreemptiveResource is preempted; B's grants must be those of a FIFO resource whose first holder leaves its with-block "
          "at the instant the Interrupt carries it out (or later, when it catches the Interrupt inside)."),
    facets=[
        Facet("Resource", strategy_for("Resource"), run_case, quick=500, thorough=4000,
              essential=["grant_while_others_wait", "cancel_head", "release_queue", "coinciding_ops", "with_exit_user_queue"]),
        Facet("PriorityResource", strategy_for("PriorityResource"), run_case, quick=500, thorough=4000,
              essential=["grant_while_others_wait", "cancel_head", "release_queue", "coinciding_ops"]),
        Facet("PreemptiveResource", strategy_for("PreemptiveResource"), run_case, quick=700, thorough=5000,
              essential=["eviction", "equal_key_preempt_refused", "preempted_delivered", "grant_while_others_wait",
                         "eviction_among_equal_worst_users", "deferred_eviction"]),
        Facet("nested", nested_strategy, run_nested, quick=400, thorough=3000,
              essential=["nested with-blocks: Interrupt caught outside both blocks", "nested with-blocks: Interrupt caught between the blocks",
                         "nested with-blocks: Interrupt caught inside the inner block",
                         "waiter inherits the slot the preempted holder gave up"]),
    ],
    assumptions=["each actor holds or awaits at most one request at a time (statement's precondition)",
                 "actors never terminate while holding"],
)
