"""C18 - demuxes, switches, hubs, splitters and fat-tree FIBs deliver to the right place (DESIGN 4/C18)."""
import random as pyrandom
from functools import partial
from math import inf

import networkx as nx
from hypothesis import strategies as st

from onl.netdev import FairPacketSwitch, Hub, NSplitter, SimplePacketSwitch, Splitter
from onl.netdev.demux import FIBDemux, FlowDemux
from onl.packet import DistPacketGenerator, Packet, PacketSink
from onl.sim import Environment
from onl.topo import FatTree

from ..core import kgen, netlab
from ..core.common import HarnessError, Inconclusive, Violation, crash
from ..core.netlab import Lab
from ..runner import Facet, Property


class Rec:
    """recording device"""

    def __init__(self, name, log=None):
        self.name = name
        self.element_id = name
        self.out = None
        self.got = []
        self.log = log

    def put(self, pkt):
        self.got.append(pkt)
        if self.log is not None:
            self.log.append((self.name, pkt))


def mkpkt(i, flow, src="src"):
    return Packet(0.0, 100 + i, i, src=src, flow_id=flow, payload=("p", i))


def guarded(clause, fn, what):
    try:
        return fn()
    except (Violation, HarnessError):
        raise
    except Exception as e:
        raise crash(clause, e, what)


def expect_only(devs, target, pkt, what, sig):
    """pkt must have reached exactly `target` (None = nowhere) among devs, exactly once"""
    for d in devs:
        n = sum(1 for p in d.got if p is pkt)
        want = 1 if d is target else 0
        if n != want:
            raise Violation("C18." + sig, f"{what}: packet of flow {pkt.flow_id} reached {d.name} {n} time(s), expected {want} "
                                          f"(rule names {target.name if target else 'nowhere'})", "C18." + sig)


# ------------------------------------------------------------------------------------------- demuxes
def run_flowdemux(case):
    outs = [Rec(f"out{i}") for i in range(case["nouts"])]
    default = Rec("default") if case["default"] else None
    grow = case.get("grow") or []          # [[after packet #k, how many outputs to attach, "append"|"replace"], ...]
    n0 = max(0, len(outs) - sum(g[1] for g in grow))
    live = list(outs[:n0])
    dm = guarded("C18.no_exception", lambda: FlowDemux(live, default), "FlowDemux()")
    classes = set()
    all_outs = outs
    for i, f in enumerate(case["flows"]):
        for g in grow:
            if g[0] == i and len(live) < len(all_outs):
                # outputs are attached to a demux that already exists (ports added to a switch, a list filled after construction)
                more = all_outs[len(live):len(live) + g[1]]
                if g[2] == "append":
                    dm.outs.extend(more)
                    live = dm.outs
                else:
                    live = list(live) + more
                    dm.outs = live
                classes.add("outputs attached after construction")
        outs = list(live)
        pkt = mkpkt(i, f)
        guarded("C18.no_exception", lambda: dm.put(pkt), f"FlowDemux.put(flow {f}) outs={case['nouts']} default={case['default']}")
        if f < len(outs):
            target = outs[f]
            classes.add("hit")
        elif default is not None:
            target = default
            classes.add("miss with default")
        else:
            target = None
            classes.add("miss without default")
        expect_only(all_outs + ([default] if default else []), target, pkt, "FlowDemux", "flowdemux")
    return {"nontrivial": len(classes) >= 2, "classes": sorted(classes)}


def run_fibdemux(case):
    outs = [Rec(f"out{i}") for i in range(case["nouts"])]
    default = Rec("default") if case["default"] else None
    ends = {f: Rec(f"end{f}") for f in case["ends"]}
    fib = {int(k): v for k, v in case["fib"]}
    dm = guarded("C18.no_exception", lambda: FIBDemux(outs=outs, ends=dict(ends), fib=fib, default_out=default), "FIBDemux()")
    classes = set()
    if not fib:
        classes.add("empty table")
    alld = outs + list(ends.values()) + ([default] if default else [])
    for i, f in enumerate(case["flows"]):
        pkt = mkpkt(i, f)
        guarded("C18.no_exception", lambda: dm.put(pkt),
                f"FIBDemux.put(flow {f}) fib={fib} outs={case['nouts']} ends={sorted(ends)} default={case['default']}")
        if f in ends:
            target = ends[f]
            classes.add("end device")
        elif f in fib and 0 <= fib[f] < len(outs):
            target = outs[fib[f]]
            classes.add("table hit")
        else:
            target = default
            classes.add("unknown flow -> default" if default else "unknown flow, no default")
            if f in fib:
                classes.add("entry outside outs")
        expect_only(alld, target, pkt, f"FIBDemux fib={fib}", "fibdemux")
    miss = {"unknown flow -> default", "unknown flow, no default"} & classes
    return {"nontrivial": "table hit" in classes and bool(miss), "classes": sorted(classes)}


def run_fibdemux_history(case):
    """the rule is evaluated against the tables as they are at each put(): end devices and table entries are added, replaced
    and removed between packets (the public `ends` dict, in-place edits of the fib dict, the `fib` setter)"""
    n = case["nouts"]
    outs = [Rec(f"out{i}") for i in range(n)]
    default = Rec("default") if case["default"] else None
    fib = {}
    dm = guarded("C18.no_exception", lambda: FIBDemux(outs=outs, fib=fib, default_out=default), "FIBDemux()")
    ends = {}
    all_ends = []
    classes = set()
    routed_before = set()
    for i, op in enumerate(case["ops"]):
        k = op[0]
        if k == "put":
            f = op[1]
            pkt = mkpkt(i, f)
            guarded("C18.no_exception", lambda: dm.put(pkt), f"FIBDemux.put(flow {f}) after {case['ops'][:i]}")
            if f in ends:
                target = ends[f]
            elif f in fib and 0 <= fib[f] < n:
                target = outs[fib[f]]
            else:
                target = default
            expect_only(outs + all_ends + ([default] if default else []), target, pkt,
                        f"FIBDemux after {case['ops'][:i + 1]}", "fibdemux/history")
            routed_before.add(f)
        elif k == "end_on":
            d = Rec(f"end{op[1]}.{i}")
            all_ends.append(d)
            ends[op[1]] = d
            dm.ends[op[1]] = d
            if op[1] in routed_before:
                classes.add("end device registered after the flow was routed")
        elif k == "end_off":
            if op[1] in ends:
                del ends[op[1]]
                del dm.ends[op[1]]
                if op[1] in routed_before:
                    classes.add("end device removed after the flow was routed")
        elif k == "fib_edit":
            fib[op[1]] = op[2]
            if op[1] in routed_before:
                classes.add("table entry changed after the flow was routed")
        elif k == "fib_del":
            fib.pop(op[1], None)
        elif k == "fib_new":
            fib = {int(a): b for a, b in op[1]}
            dm.fib = fib
            classes.add("table replaced through the setter")
    return {"nontrivial": len(classes) >= 2, "classes": sorted(classes)}


def fibdemux_history_strategy(tier):
    flow = st.integers(0, 4)
    op = kgen.weighted([
        (st.tuples(st.just("put"), flow).map(list), 6),
        (st.tuples(st.just("end_on"), flow).map(list), 2),
        (st.tuples(st.just("end_off"), flow).map(list), 2),
        (st.tuples(st.just("fib_edit"), flow, st.integers(0, 3)).map(list), 3),
        (st.tuples(st.just("fib_del"), flow).map(list), 1),
        (st.tuples(st.just("fib_new"), st.lists(st.tuples(flow, st.integers(0, 3)).map(list), max_size=4,
                                                 unique_by=lambda x: x[0])).map(list), 1),
    ])
    return st.fixed_dictionaries({"nouts": st.integers(1, 3), "default": st.booleans(), "ops": st.lists(op, min_size=4, max_size=20)})


# ------------------------------------------------------------------------------------------- switches
def run_switch(case):
    lab = Lab(clause="C18.no_exception")
    env = lab.env
    n = case["nports"]
    recs = [Rec(f"port{i}") for i in range(n)]
    classes = {case["kind"]}
    if case["kind"] == "simple":
        sw = guarded("C18.no_exception", lambda: SimplePacketSwitch(env, n, case["rate"], 100, element_id="sw"), "SimplePacketSwitch()")
        for i, p in enumerate(sw.ports):
            p.out = recs[i]
        route = lambda f: recs[f] if f < n else None
        ends = {}
    else:
        table = {c: 1 for c in range(3)}
        fn = (lambda f: f % 3) if case["kind"] != "SP" else (lambda f: f)
        if case["kind"] == "SP":
            table = {f: 1 + (f % 3) for f in range(9)}
        sw = guarded("C18.no_exception",
                     lambda: FairPacketSwitch(env, n, case["rate"], 100, table, case["kind"], element_id="sw", flow2class=fn),
                     f"FairPacketSwitch({case['kind']})")
        for i, p in enumerate(sw.ports):
            p.out = recs[i]
        fib = {int(k): v for k, v in case["fib"]}
        sw.demux.fib = fib
        ends = {f: Rec(f"end{f}") for f in case["ends"]}
        for f, d in ends.items():
            sw.demux.ends[f] = d
        if not fib:
            classes.add("empty table")

        def route(f):
            if f in ends:
                return ends[f]
            if f in fib and 0 <= fib[f] < n:
                return recs[fib[f]]
            return None
    pkts = []
    for i, f in enumerate(case["flows"]):
        pkt = mkpkt(i, f)
        pkts.append(pkt)
        ev = env.timeout(i / 16)
        ev.callbacks.append(lambda _e, pkt=pkt: lab._put(sw, pkt))
    lab.run()
    alld = recs + list(ends.values())
    for pkt in pkts:
        target = route(pkt.flow_id)
        expect_only(alld, target, pkt, f"{case['kind']} switch", "switch")
        classes.add("routed" if target else "nowhere")
        if target is not None and target in ends.values():
            classes.add("end device")
    return {"nontrivial": "routed" in classes and len(case["flows"]) >= 3, "classes": sorted(classes)}


# ------------------------------------------------------------------------------------------- hub
def run_hub(case):
    lab = Lab(clause="C18.no_exception")
    env = lab.env
    n = case["n"]
    eps = [Rec(f"ep{i}") for i in range(n)]
    resp = case.get("responder")
    replies = []
    if resp is not None and resp < n:
        # a station that answers at once, from inside its own put(): the hub is re-entered while it is still repeating the request
        class Responder(Rec):
            def put(self, pkt):
                super().put(pkt)
                if pkt.payload and pkt.payload[0] == "p" and self.out is not None:
                    rep = Packet(0.0, 40, 1000 + pkt.packet_id, src=self.name, flow_id=0, payload=("reply", pkt.packet_id))
                    replies.append((pkt, rep))
                    self.out.put(rep)
        eps[resp] = Responder(f"ep{resp}")
    use_ports = case["ports"]
    ports = [Rec(f"pd{i}") if (use_ports and case["port_mask"][i]) else None for i in range(n)]
    # port devices forward to their endpoint (add_endpoint wires port.out = endpoint)

    class PortDev(Rec):
        def put(self, pkt):
            super().put(pkt)
            if self.out is not None:
                self.out.put(pkt)
    ports = [PortDev(f"pd{i}") if p is not None else None for i, p in enumerate(ports)]
    if case["ctor"]:
        # the first k stations are given to the constructor, the others are attached afterwards
        k = min(n, case.get("split", n))
        if use_ports:
            hub = guarded("C18.no_exception", lambda: Hub(env, list(eps[:k]), list(ports[:k])), f"Hub(env, {k} endpoints, ports)")
        else:
            hub = guarded("C18.no_exception", lambda: Hub(env, list(eps[:k])), f"Hub(env, {k} endpoints) without ports")
        for e, p in zip(eps[k:], ports[k:]):
            guarded("C18.no_exception", lambda: hub.add_endpoint(e, p), "add_endpoint after the constructor")
    else:
        hub = guarded("C18.no_exception", lambda: Hub(env), "Hub(env)")
        for e, p in zip(eps, ports):
            guarded("C18.no_exception", lambda: hub.add_endpoint(e, p), "add_endpoint")
    classes = {"constructor" if case["ctor"] else "add_endpoint", "with port devices" if use_ports else "without port devices"}
    if case["ctor"] and 0 < min(n, case.get("split", n)) < n:
        classes.add("constructor, then add_endpoint")
    for i, s in enumerate(case["senders"]):
        src = f"ep{s}" if s < n else "outsider"
        pkt = mkpkt(i, 0, src=src)
        guarded("C18.no_exception", lambda: hub.put(pkt), f"Hub.put from {src}")
        classes.add("sender inside" if s < n else "sender outside")
        for j, e in enumerate(eps):
            cnt = sum(1 for p in e.got if p is pkt)
            want = 0 if j == s else 1
            if cnt != want:
                raise Violation("C18.hub", f"hub with {n} endpoints, packet from {src}: endpoint ep{j} received it {cnt} time(s), "
                                           f"expected {want}", "C18.hub/" + ("echo" if j == s else "missed"))
            if ports[j] is not None:
                via = sum(1 for p in ports[j].got if p is pkt)
                if via != want:
                    raise Violation("C18.hub", f"endpoint ep{j} has a port device but the packet passed it {via} time(s)", "C18.hub/port")
        for req, rep in replies:
            if req is pkt:
                classes.add("endpoint replies from inside put()")
                for j, e in enumerate(eps):
                    cnt = sum(1 for p in e.got if p is rep)
                    want = 0 if j == resp else 1
                    if cnt != want:
                        raise Violation("C18.hub", f"hub with {n} endpoints: ep{resp} answered the packet from {src} at once; endpoint ep{j} "
                                                   f"received the reply {cnt} time(s), expected {want}", "C18.hub/reentrant")
        e_out = [e.out for e in eps]
        if any(o is not hub for o in e_out):
            raise Violation("C18.hub", "an attached endpoint's out is not the hub", "C18.hub/wiring")
    return {"nontrivial": n >= 2 and "sender inside" in classes, "classes": sorted(classes)}


# ------------------------------------------------------------------------------------------- splitters
def run_splitter(case):
    n = case["n"]
    classes = set()
    if case["bad"] is not None:
        try:
            NSplitter(case["bad"])
        except (ValueError, TypeError) as e:
            want = TypeError if not isinstance(case["bad"], int) or isinstance(case["bad"], bool) and False else ValueError
            if not isinstance(case["bad"], int):
                want = TypeError
            if not isinstance(e, want):
                raise Violation("C18.splitter", f"NSplitter({case['bad']!r}) raised {type(e).__name__}", "C18.splitter/badN")
            return {"nontrivial": False, "classes": ["invalid N refused"]}
        except Exception as e:
            raise crash("C18.no_exception", e, f"NSplitter({case['bad']!r})")
        raise Violation("C18.splitter", f"NSplitter({case['bad']!r}) accepted", "C18.splitter/badN-accepted")
    outs = [Rec(f"o{i}") if m else None for i, m in enumerate(case["mask"][:n])]
    if n == 2 and case["two"]:
        sp = Splitter()
        sp.out1, sp.out2 = outs[0], outs[1]
        classes.add("Splitter")
    else:
        sp = guarded("C18.no_exception", lambda: NSplitter(n), f"NSplitter({n})")
        for i, o in enumerate(outs):
            sp.outs[i] = o
        classes.add("NSplitter")
    pkt = mkpkt(1, 4, src="s")
    # what elements upstream of the splitter leave on a packet (token-bucket colour, TCP ack number, wire/port stamps,
    # scheduler priorities) belongs to its header as much as the constructor arguments do
    marks = case.get("marks") or {}
    for k, v in marks.items():
        if k in ("perhop_time", "priorities"):
            getattr(pkt, k).update({kk: vv for kk, vv in v})
        else:
            setattr(pkt, k, v)
    if marks:
        classes.add("packet marked upstream of the splitter")
    full = {k: (dict(v) if isinstance(v, dict) else v) for k, v in vars(pkt).items()}
    guarded("C18.no_exception", lambda: sp.put(pkt), "splitter.put")
    fields = ("packet_id", "flow_id", "src", "size", "time", "payload")
    orig = tuple(getattr(pkt, f) for f in fields)
    seen = []
    for i, o in enumerate(outs):
        if o is None:
            classes.add("unset output")
            continue
        if len(o.got) != 1:
            raise Violation("C18.splitter", f"output {i} received {len(o.got)} packets", "C18.splitter/count")
        q = o.got[0]
        if i == 0:
            if q is not pkt:
                raise Violation("C18.splitter", "first output did not get the original packet", "C18.splitter/original")
        else:
            if q is pkt or any(q is s for s in seen):
                raise Violation("C18.splitter", f"output {i} got a shared object, not a separate copy", "C18.splitter/shared")
            if tuple(getattr(q, f) for f in fields) != orig:
                raise Violation("C18.splitter", f"copy at output {i} differs in its header fields", "C18.splitter/fields")
            diff = {k: (v, getattr(q, k, "<missing>")) for k, v in full.items() if getattr(q, k, "<missing>") != v}
            if diff:
                raise Violation("C18.splitter", f"copy at output {i} differs from the packet that was split (original, copy): {diff}",
                                "C18.splitter/fields-marked")
        seen.append(q)
    # header fields can be changed independently
    for k, q in enumerate(seen[1:], 1):
        q.packet_id, q.flow_id, q.src, q.size, q.time, q.payload = 900 + k, 77, "x", 1, 9.0, "changed"
    if seen and seen[0] is pkt and tuple(getattr(pkt, f) for f in fields) != orig:
        raise Violation("C18.splitter", "changing a copy's header changed the original", "C18.splitter/aliased")
    for a in seen[1:]:
        for b in seen[1:]:
            if a is not b and a.packet_id == b.packet_id:
                raise Violation("C18.splitter", "copies alias each other", "C18.splitter/aliased")
    return {"nontrivial": sum(1 for o in outs if o) >= 2, "classes": sorted(classes)}


# ------------------------------------------------------------------------------------------- fat tree
def run_fattree(case):
    k = case["k"]
    classes = set()
    valid = isinstance(k, int) and not isinstance(k, bool) and k >= 2 and k % 2 == 0
    try:
        ft = FatTree(k)
    except (TypeError, ValueError) as e:
        if valid:
            raise crash("C18.fattree", e, f"FatTree({k!r})")
        want = TypeError if not isinstance(k, int) else ValueError
        if not isinstance(e, want):
            raise Violation("C18.fattree", f"FatTree({k!r}) raised {type(e).__name__}, expected {want.__name__}", "C18.fattree/badk")
        return {"nontrivial": False, "classes": ["invalid k refused"]}
    except Exception as e:
        raise crash("C18.fattree", e, f"FatTree({k!r})")
    if not valid:
        if isinstance(k, bool):
            return {"nontrivial": False, "classes": ["bool k"]}
        raise Violation("C18.fattree", f"FatTree({k!r}) accepted", "C18.fattree/badk-accepted")
    g = ft.topo
    layers = {}
    for nname, d in g.nodes(data=True):
        layers.setdefault(d["layer"], []).append(nname)
    want = {"core": (k // 2) ** 2, "aggregation": k * k // 2, "edge": k * k // 2, "leaf": k ** 3 // 4}
    got = {l: len(v) for l, v in layers.items()}
    if got != want:
        raise Violation("C18.fattree", f"FatTree({k}) layer sizes {got}, expected {want}", "C18.fattree/sizes")
    for nname, d in g.nodes(data=True):
        deg = g.degree(nname)
        if d["type"] == "switch" and deg != k:
            raise Violation("C18.fattree", f"switch {nname} ({d['layer']}) has degree {deg}, expected {k}", "C18.fattree/degree")
        if d["type"] == "host" and deg != 1:
            raise Violation("C18.fattree", f"host {nname} has degree {deg}", "C18.fattree/degree-host")
    for e in layers["edge"]:
        hosts = [v for v in g.neighbors(e) if g.nodes[v]["type"] == "host"]
        if len(hosts) != k // 2:
            raise Violation("C18.fattree", f"edge switch {e} has {len(hosts)} hosts, expected {k // 2}", "C18.fattree/hosts-per-edge")
    if set(ft.hosts) != set(layers["leaf"]):
        raise Violation("C18.fattree", "hosts property disagrees with the leaf layer", "C18.fattree/hosts")
    # layering of links and inter-pod path diversity
    for u, v in g.edges():
        lu, lv = g.nodes[u]["layer"], g.nodes[v]["layer"]
        if {lu, lv} not in ({"core", "aggregation"}, {"aggregation", "edge"}, {"edge", "leaf"}):
            raise Violation("C18.fattree", f"link {u}-{v} joins layers {lu},{lv}", "C18.fattree/link")
    hs = sorted(ft.hosts)
    a = hs[0]
    b = next(h for h in hs if g.nodes[h]["pod"] != g.nodes[a]["pod"])
    paths = list(nx.all_shortest_paths(g, a, b))
    if len(paths[0]) != 7 or len(paths) != (k // 2) ** 2:
        raise Violation("C18.fattree", f"hosts in different pods: {len(paths)} shortest paths of length {len(paths[0]) - 1}, expected "
                                       f"{(k // 2) ** 2} of length 6", "C18.fattree/paths")
    classes.add(f"k={k}")
    # flows and FIBs
    pyrandom.seed(case["seed"])
    flows = guarded("C18.fattree", lambda: ft.generate_flows(case["nflows"]), "generate_flows")
    if sorted(flows) != list(range(case["nflows"])):
        raise Violation("C18.fattree", "flow ids are not 0..n-1", "C18.fattree/flow-ids")
    for fid, fl in flows.items():
        if fl.src == fl.dst or fl.src not in ft.hosts or fl.dst not in ft.hosts:
            raise Violation("C18.fattree", f"flow {fid}: src={fl.src} dst={fl.dst}", "C18.fattree/flow-endpoints")
        p = fl.path
        if p[0] != fl.src or p[-1] != fl.dst or any(not g.has_edge(x, y) for x, y in zip(p, p[1:])) \
                or len(p) - 1 != nx.shortest_path_length(g, fl.src, fl.dst):
            raise Violation("C18.fattree", f"flow {fid}: path {p} is not a shortest path {fl.src}->{fl.dst}", "C18.fattree/flow-path")
    tcp = case["tcp"]
    # the mapping handed to generate_fib is the caller's: a renumbered batch or a filtered subset has keys that are not the
    # flows' own ids; packets carry Flow.fid, so the tables are judged under that id
    rekey = case.get("rekey")
    if rekey == "shift":
        flows = {key + 1000: fl for key, fl in flows.items()}
    elif rekey == "subset":
        flows = dict(enumerate(fl for fl in flows.values() if fl.fid % 2 == 1 or case["nflows"] == 1))
    elif rekey == "names":
        flows = {f"flow-{key}": fl for key, fl in reversed(list(flows.items()))}
    if rekey:
        classes.add("mapping keys differ from the flows' ids")
    guarded("C18.fattree", lambda: ft.generate_fib(flows, tcp=tcp), "generate_fib")
    shared = 0
    used = {}
    for fl in flows.values():
        fid = fl.fid
        for keyid, path in [(fid, fl.path)] + ([(fid + 10000, fl.path[::-1])] if tcp else []):
            cur = path[0]
            walked = [cur]
            for _ in range(len(path) + 2):
                node = g.nodes[cur]
                if cur == path[-1]:
                    break
                port = node["flow_to_port"].get(keyid)
                if port is None:
                    raise Violation("C18.fib_walk", f"flow key {keyid}: node {cur} on its path {path} has no forwarding entry",
                                    "C18.fib_walk/missing" + ("-reverse" if keyid >= 10000 else ""))
                nh = node["port_to_nexthop"].get(port)
                if node["flow_to_nexthop"].get(keyid) != nh:
                    raise Violation("C18.fib_walk", f"node {cur}: flow_to_nexthop and port_to_nexthop disagree", "C18.fib_walk/tables")
                cur = nh
                walked.append(cur)
            if walked != list(path):
                raise Violation("C18.fib_walk", f"flow key {keyid}: tables lead along {walked}, the flow's path is {list(path)}",
                                "C18.fib_walk/path" + ("-reverse" if keyid >= 10000 else ""))
            for x, y in zip(path, path[1:]):
                used[(x, y)] = used.get((x, y), 0) + 1
        if not tcp:
            for nname in g.nodes():
                if nname not in fl.path and fid in g.nodes[nname]["flow_to_port"]:
                    raise Violation("C18.fib_walk", f"node {nname} off the path of flow {fid} has an entry for it", "C18.fib_walk/stray")
    if any(v >= 2 for v in used.values()):
        classes.add(">=2 flows share a link")
    if tcp:
        classes.add("reverse (TCP) entries")
    return {"nontrivial": case["nflows"] >= 2 and any(v >= 2 for v in used.values()), "classes": sorted(classes)}


def run_e2e(case):
    """simulated fat tree: every packet arrives at its own flow's sink and at no other, or is a counted tail drop"""
    k = case["k"]
    lab = Lab(clause="C18.no_exception", budget=400000)
    env = lab.env
    ft = FatTree(k)
    pyrandom.seed(case["seed"])
    flows = ft.generate_flows(case["nflows"])
    ft.generate_fib(flows)
    ncls = case["ncls"]
    server = case["server"]
    log = []
    sinks = {}
    sent = {}
    for fid, fl in flows.items():
        script = list(case["gaps"])
        n_pk = case["npk"]
        cnt = {"n": 0}

        def arr(script=script, cnt=cnt, n_pk=n_pk):
            cnt["n"] += 1
            return script[(cnt["n"] - 1) % len(script)] if cnt["n"] <= n_pk else 1e12
        pg = DistPacketGenerator(env, f"Flow_{fid}", arr, lambda: case["size"], flow_id=fid)
        fl.pkt_gen = pg
        ps = Rec(f"sink{fid}", log)
        fl.pkt_sink = ps
        sinks[fid] = ps
    if server == "SP":
        weights = {f: 1 + (f % 3) for f in range(case["nflows"])}
    else:
        weights = {c: 1 + (c % 2) for c in range(ncls)}

    def f2c(flow_id, n_id):
        return flow_id if server == "SP" else (flow_id + n_id) % ncls
    taps = {}
    for nid in ft.topo.nodes():
        node = ft.topo.nodes[nid]
        dev = FairPacketSwitch(env, k, case["rate"], case["buffer"], weights, server, element_id=f"{nid}",
                               flow2class=partial(f2c, n_id=nid))
        dev.demux.fib = node["flow_to_port"]
        node["device"] = dev
    for nid in ft.topo.nodes():
        node = ft.topo.nodes[nid]
        for port, nh in node["port_to_nexthop"].items():
            t = lab.tap(f"{nid}->{nh}", ft.topo.nodes[nh]["device"])
            taps[(nid, nh)] = t
            node["device"].ports[port].out = t
    entry = {}
    for fid, fl in flows.items():
        t = lab.tap(f"gen{fid}", ft.topo.nodes[fl.src]["device"])
        entry[fid] = t
        fl.pkt_gen.out = t
        ft.topo.nodes[fl.dst]["device"].demux.ends[fid] = fl.pkt_sink
    horizon = sum(case["gaps"]) * case["npk"] + 1000
    lab.run(until=horizon)
    dropped = sum(p.packets_dropped for nid in ft.topo.nodes() for p in ft.topo.nodes[nid]["device"].egress_ports)
    emitted = {fid: [r.pkt for r in entry[fid].recs] for fid in flows}
    total = sum(len(v) for v in emitted.values())
    delivered = 0
    for fid, ps in sinks.items():
        for p in ps.got:
            if p.flow_id != fid:
                raise Violation("C18.e2e", f"sink of flow {fid} received a packet of flow {p.flow_id}", "C18.e2e/wrong-sink")
            if all(p is not q for q in emitted[fid]):
                raise Violation("C18.e2e", f"sink of flow {fid} received a packet its generator never emitted", "C18.e2e/invented")
        if len({id(p) for p in ps.got}) != len(ps.got):
            raise Violation("C18.e2e", f"sink of flow {fid} received a packet twice", "C18.e2e/duplicate")
        delivered += len(ps.got)
    # hop by hop: a packet only ever crosses links of its own flow's path
    for (u, v), t in taps.items():
        for r in t.recs:
            path = flows[r.snap[1]].path
            if (u, v) not in list(zip(path, path[1:])):
                raise Violation("C18.e2e", f"packet of flow {r.snap[1]} crossed link {u}->{v}, not on its path {path}", "C18.e2e/off-path")
    if delivered + dropped != total:
        raise Violation("C18.e2e", f"{total} packets emitted, {delivered} delivered to their sinks, {dropped} counted tail drops",
                        "C18.e2e/unaccounted")
    classes = {server, f"k={k}"}
    if dropped:
        classes.add("tail drops")
    links = {}
    for fid, fl in flows.items():
        for seg in zip(fl.path, fl.path[1:]):
            links.setdefault(seg, []).append(fid)
    share = any(len(v) >= 2 for v in links.values())
    if share:
        classes.add(">=2 flows share a link")
    if server != "SP" and ncls < case["nflows"]:
        classes.add("flows share a class")
    return {"nontrivial": share and total >= 10, "classes": sorted(classes)}


# ------------------------------------------------------------------------------------------- strategies
def flowdemux_strategy(tier):
    grow = st.lists(st.tuples(st.integers(0, 5), st.integers(1, 2), st.sampled_from(["append", "replace"])).map(list), max_size=2)
    return st.fixed_dictionaries({"nouts": st.integers(0, 5), "default": st.booleans(),
                                  "flows": st.lists(st.integers(0, 8), min_size=1, max_size=8),
                                  "grow": kgen.weighted([(st.just([]), 2), (grow, 1)])})


def flowdemux_exhaustive(tier, shard, nshards):
    """every (number of outputs 0..5, default or not, flow id 0..8) combination"""
    i = 0
    for nouts in range(6):
        for default in (False, True):
            for f in range(9):
                if i % nshards == shard:
                    yield {"nouts": nouts, "default": default, "flows": [f]}
                i += 1


def fibdemux_exhaustive(tier, shard, nshards):
    """all tables over flows {0,1,2} with ports in {0,1,2} (incl. missing entries and {}), 0..2 outputs, each subset of end
    devices over {0,1}, default or not, each flow id 0..3"""
    import itertools
    i = 0
    for nouts in range(3):
        for default in (False, True):
            for ports in itertools.product([None, 0, 1, 2], repeat=3):
                fib = [[f, p] for f, p in enumerate(ports) if p is not None]
                for ends in ([], [0], [1], [0, 1]):
                    if i % nshards == shard:
                        yield {"nouts": nouts, "default": default, "fib": fib, "ends": ends, "flows": [0, 1, 2, 3]}
                    i += 1


def fibdemux_strategy(tier):
    fib = st.lists(st.tuples(st.integers(0, 8), st.integers(0, 6)).map(list), max_size=6, unique_by=lambda x: x[0])
    return st.fixed_dictionaries({"nouts": st.integers(0, 4), "default": st.booleans(), "fib": fib,
                                  "ends": st.lists(st.integers(0, 8), max_size=3, unique=True),
                                  "flows": st.lists(st.integers(0, 8), min_size=1, max_size=8)})


def switch_strategy(tier):
    fib = st.lists(st.tuples(st.integers(0, 8), st.integers(0, 5)).map(list), max_size=7, unique_by=lambda x: x[0])
    return st.fixed_dictionaries({"kind": st.sampled_from(["simple", "SP", "WFQ", "DRR", "VirtualClock"]),
                                  "nports": st.integers(1, 5), "rate": st.sampled_from([8192, 1e6]), "fib": fib,
                                  "ends": st.lists(st.integers(0, 8), max_size=2, unique=True),
                                  "flows": st.lists(st.integers(0, 8), min_size=1, max_size=10)})


def hub_strategy(tier):
    return st.integers(0, 6).flatmap(lambda n: st.fixed_dictionaries({
        "n": st.just(n), "ports": st.booleans(), "ctor": st.booleans(),
        "port_mask": st.lists(st.booleans(), min_size=n, max_size=n),
        "senders": st.lists(st.integers(0, n), min_size=1, max_size=4),
        "responder": st.one_of(st.none(), st.integers(0, max(0, n - 1))),
        "split": st.sampled_from([n, n, max(0, n - 1), 1, n // 2])}))


def splitter_strategy(tier):
    good = st.integers(2, 5).flatmap(lambda n: st.fixed_dictionaries({
        "n": st.just(n), "two": st.booleans(), "bad": st.none(), "mask": st.lists(st.booleans(), min_size=5, max_size=5),
        "marks": st.fixed_dictionaries({}, optional={
            "color": st.sampled_from(["green", "yellow", "red"]), "ack": st.sampled_from([512, 4096]),
            "current_time": st.sampled_from([0.5, 3]), "dst": st.just("h7"), "realtime": st.just(2.5),
            "perhop_time": st.just([["p1", 0.5], ["p2", 1.5]]), "priorities": st.just([[0, 3]])})}))
    bad = st.fixed_dictionaries({"n": st.just(2), "two": st.just(False), "mask": st.just([True] * 5),
                                 "bad": st.sampled_from([1, 0, -3, 2.0, "3", None]).filter(lambda x: x is not None)})
    return kgen.weighted([(good, 4), (bad, 2)])


def fattree_strategy(tier):
    ks = [2, 4, 4, 6, 8] if tier == "quick" else [2, 4, 6, 8, 10, 12, 16]
    good = st.fixed_dictionaries({"k": st.sampled_from(ks), "nflows": st.integers(1, 12), "seed": st.integers(0, 10 ** 6),
                                  "tcp": st.booleans(), "rekey": st.sampled_from([None, None, None, "shift", "subset", "names"])})
    bad = st.fixed_dictionaries({"k": st.sampled_from([0, 1, 3, 5, -2, -4, 2.0, "4", 7]), "nflows": st.just(1), "seed": st.just(0),
                                 "tcp": st.just(False)})
    return kgen.weighted([(good, 4), (bad, 2)])


def e2e_strategy(tier):
    ks = [2, 4] if tier == "quick" else [2, 4, 4, 6]
    return st.fixed_dictionaries({
        "k": st.sampled_from(ks), "server": st.sampled_from(["WFQ", "DRR", "VirtualClock", "SP"]),
        "nflows": st.integers(2, 8), "ncls": st.integers(1, 3), "seed": st.integers(0, 10 ** 6),
        "rate": st.sampled_from([8192 * 8, 1e6]), "buffer": st.sampled_from([2, 4, 100]),
        "npk": st.integers(3, 12), "size": st.sampled_from([128, 1024]),
        "gaps": st.lists(st.sampled_from([0.0, 1 / 64, 1 / 8, 1]), min_size=1, max_size=4)})


PROP = Property(
    "C18",
    rule=("FlowDemux(0-5 outs, default or not) x flow ids 0-8; FIBDemux(outs, ends, fib incl. {} and entries pointing outside "
          "outs, default) x flow ids; SimplePacketSwitch and FairPacketSwitch (SP, WFQ, DRR, VirtualClock) with recording devices "
          "behind every port; Hub with 0-6 endpoints built by constructor (with/without ports) and add_endpoint, senders inside "
          "and outside; Splitter/NSplitter(2-5) with unset outputs and invalid N, packets carrying upstream marks (colour, ack, stamps, "
          "priorities) that every copy must carry too; FatTree(k) for even k (quick <=8, thorough "
          "<=16) and invalid k; generate_flows under a generated random seed; generate_fib with/without TCP reverse entries; "
          "end-to-end simulation on k in {2,4(,6)} with FairPacketSwitch at every node, few classes so that flows share a class. "
          "Oracle, directly from the statement: each packet reaches exactly the device the rule names (or none), no exception "
          "for any table; hub: every endpoint except the sender, once, through its port device; splitter: original to the first "
          "output, distinct equal-field copies elsewhere, header fields independently changeable; fat tree: layer sizes, "
          "degrees, k/2 hosts per edge switch, (k/2)^2 shortest inter-pod paths of length 6, flows src!=dst on a shortest path, "
          "FIB walk reproduces the path (reverse for fid+10000); e2e: packets only cross links of their own path, reach only "
          "their own sink once, emitted == delivered + counted tail drops."),
    facets=[
        Facet("flowdemux", flowdemux_strategy, run_flowdemux, quick=400, thorough=2000, exhaustive=flowdemux_exhaustive,
              essential=["hit", "miss with default", "miss without default"]),
        Facet("fibdemux", fibdemux_strategy, run_fibdemux, quick=600, thorough=3000, exhaustive=fibdemux_exhaustive,
              essential=["empty table", "end device", "table hit", "unknown flow -> default", "unknown flow, no default",
                         "entry outside outs"]),
        Facet("fibdemux_history", fibdemux_history_strategy, run_fibdemux_history, quick=500, thorough=3000,
              essential=["end device registered after the flow was routed", "end device removed after the flow was routed",
                         "table entry changed after the flow was routed", "table replaced through the setter"]),
        Facet("switch", switch_strategy, run_switch, quick=400, thorough=2000, essential=["routed", "nowhere", "empty table"]),
        Facet("hub", hub_strategy, run_hub, quick=400, thorough=2000,
              essential=["constructor", "add_endpoint", "with port devices", "without port devices", "sender inside", "sender outside",
                         "constructor, then add_endpoint"]),
        Facet("splitter", splitter_strategy, run_splitter, quick=300, thorough=1500,
              essential=["Splitter", "NSplitter", "unset output", "invalid N refused", "packet marked upstream of the splitter"]),
        Facet("fattree", fattree_strategy, run_fattree, quick=400, thorough=1500,
              essential=[">=2 flows share a link", "reverse (TCP) entries", "invalid k refused", "mapping keys differ from the flows' ids"]),
        Facet("fattree_e2e", e2e_strategy, run_e2e, quick=300, thorough=1500, essential=[">=2 flows share a link", "tail drops"]),
    ],
    assumptions=["SP inside FairPacketSwitch is configured with per-flow priorities (SP is keyed by flow id)",
                 "forwarding-table port numbers are non-negative"],
)
