"""C05 - condition events fire exactly when their predicate first holds, with exact value (DESIGN 4/C05)."""
from hypothesis import strategies as st

from onl.sim import Environment

from ..core import kdsl, kgen
from ..core.common import Violation, crash
from ..runner import Facet, Property

WEIGHTS = {"wait_cond": 6, "timeout": 6, "succeed": 4, "fail": 2, "spawn": 2, "return": 1, "raise": 1, "wait": 1,
           "interrupt": 1}
WAITER = {"wait_cond": 8, "timeout": 3, "spawn": 1}
DRIVER = {"timeout": 5, "succeed": 5, "fail": 2, "interrupt": 1}
WORKER = {"timeout": 5, "return": 2, "raise": 1, "wait": 1}
DELAYS = [0, 1, 2, 0.5, 1, 0.1, 0.2, 0.3]


def outcome_of(ev):
    return kdsl.ev_outcome(ev)


def depth(hev):
    if hev.tree is None:
        return 0
    return 1 + max([depth(k) for k in hev.tree[1]] or [0])


def make_on_cond(received):
    def on_cond(interp, pid, pc, hev, v):
        h = interp.h
        leaves = kdsl.cond_leaves(hev)
        my_step = hev.processed_step
        exp = [l for l in leaves if l.processed_step is not None and l.processed_step < my_step]
        if not hasattr(v, "keys") or not hasattr(v, "todict"):
            h.flag("C05.value", f"{hev.name} delivered {v!r} instead of a mapping of its processed operands", "C05.value/type")
            return
        try:
            got = list(v.keys())
            if len(got) != len(exp) or any(a is not b.ev for a, b in zip(got, exp)):
                h.flag("C05.value", f"{hev.name}: value holds {[h.hevs[id(e)].name if id(e) in h.hevs else '?' for e in got]}, "
                                    f"expected {[l.name for l in exp]} (leaves processed before the condition, operand order)",
                       "C05.value/keys")
                return
            for l in leaves:
                if l in exp:
                    val = v[l.ev]
                    o = ("ok", val) if l.ev._ok else kdsl.exc_out(val)
                    want = l.expect if l.kind != "C" else outcome_of(l.ev)
                    if o != want or l.ev not in v:
                        h.flag("C05.value", f"{hev.name}[{l.name}] = {o}, expected {want}", "C05.value/val")
                else:
                    if l.ev in v:
                        h.flag("C05.value", f"{hev.name} contains unprocessed {l.name}", "C05.value/contains")
                    try:
                        v[l.ev]
                    except KeyError:
                        pass
                    else:
                        h.flag("C05.value", f"{hev.name}[{l.name}] did not raise KeyError", "C05.value/keyerror")
            d = v.todict()
            uniq = [e for i, e in enumerate(got) if all(e is not g for g in got[:i])]      # a dict holds a repeated operand once
            if [k for k in d.keys()] != uniq or any(d[e] is not e._value for e in uniq) or list(v.values()) != [e._value for e in got] \
                    or [k for k, _ in v.items()] != got:
                h.flag("C05.value", "todict()/items() disagree with keys()", "C05.value/todict")
        except Exception as e:      # ConditionValue API blew up
            h.problems.append(crash("C05.value", e))
            return
        received.append((hev, v, [id(e) for e in got], [l.name for l in exp]))
        # classes
        dnow = hev.decision[1] if hev.decision else None
        same = [l for l in leaves if l.processed_now == dnow and l.processed_step is not None]
        if len(same) >= 2:
            h.bump("same_instant_operands")
            if depth(hev) >= 2:
                h.bump("nt")
        if any(hev.tree[2]) or any(k.tree and any(k.tree[2]) for k in hev.tree[1] if k.kind == "C"):
            h.bump("already_processed_operand")
        if len(exp) < len(leaves) and len(exp) > 0:
            h.bump("partial_value")
    return on_cond


def run_case(case):
    received = []
    res = kdsl.run_program(case, on_cond=make_on_cond(received))
    h = res.h
    # (d) after satisfaction nothing changes
    for hev, v, ids, names in received:
        if [id(e) for e in v.keys()] != ids:
            raise Violation("C05.frozen", f"value of {hev.name} changed after delivery (was {names})", "C05.frozen")
        # operands that completed after the condition was processed change nothing: they are still no part of the mapping
        for l in kdsl.cond_leaves(hev):
            if id(l.ev) in ids:
                continue
            try:
                got = v[l.ev]
            except KeyError:
                got = KeyError
            except BaseException as e:
                raise crash("C05.frozen", e, f"looking up a late operand in the value of {hev.name}")
            if got is not KeyError or l.ev in v or l.ev in v.todict():
                raise Violation("C05.frozen", f"value of {hev.name} (delivered with {names}) now answers for operand {l.name}, "
                                              f"which was not processed when the condition was: value[op] -> {got!r}, "
                                              f"op in value -> {l.ev in v}", "C05.frozen/late-operand")
            if l.processed_step is not None:
                h.bump("late_operand_lookup")
    classes = set()
    conds = [x for x in h.hevs.values() if x.kind == "C" and x.tree is not None]
    by_step = {o.proc_step: o for o in h.occs if o.proc_step is not None}
    for c in conds:
        if not c.tree[1]:
            classes.add("empty list")
        if depth(c) >= 2:
            classes.add("nested")
        if c.decision and c.decision[2][0] == "exc":
            classes.add("operand fails first")
        if c.occ is not None:
            for k in c.tree[1]:
                if k.expect and k.expect[0] == "exc" and k.occ is not None and k.occ.proc_step is not None \
                        and k.occ.proc_step > c.occ.trig_step:
                    classes.add("operand fails after trigger")
        # a condition is triggered while it is being built (already decided) or in the step that processes one of its own
        # operands - never by the processing of anything else (e.g. a leaf further down, bypassing a nested condition)
        if c.occ is not None and c.occ.trig_step != c.build_step:
            src = by_step.get(c.occ.trig_step)
            if src is not None and all(src.hev is not k for k in c.tree[1]):
                raise Violation("C05.instant", f"{c.name} was triggered in the step that processed "
                                               f"{src.hev.name if src.hev else src.kind}, which is none of its operands "
                                               f"{[k.name for k in c.tree[1]]}", "C05.instant/foreign-trigger")
        # a decided condition must have been triggered; an undecided one must not
        dec = kdsl.eval_cond(c) if res.ended == "exhausted" else None
        if res.ended == "exhausted":
            if dec is None and c.occ is not None:
                raise Violation("C05.early", f"{c.name} triggered although its predicate never held", "C05.early/end")
            if dec is not None and c.occ is None and not kdsl.detached(c, dec[0]):
                raise Violation("C05.late", f"{c.name} never triggered although decided at t={dec[1]}", "C05.late")
            if dec is not None and c.occ is not None and c.occ.trig_now != dec[1]:
                raise Violation("C05.instant", f"{c.name} triggered at t={c.occ.trig_now}, predicate first held at t={dec[1]}",
                                "C05.instant/trigger")
    for k, name in [("same_instant_operands", "same-instant operands"), ("already_processed_operand", "already-processed operand"),
                    ("duplicate_operand", "same event twice in one tree"),
                    ("partial_value", "value with unprocessed leaves missing"),
                    ("late_operand_lookup", "operand completed after the condition; looked up in the old value"),
                    ("operands given as a lazy iterable", "operands given as a lazy iterable"),
                    ("empty lazy iterable of operands", "empty lazy iterable of operands"),
                    ("caller's operand list changed after construction", "caller's operand list changed after construction")]:
        if h.stats.get(k):
            classes.add(name)
    return {"nontrivial": bool(h.stats.get("nt")), "classes": sorted(classes)}


def strategy(tier):
    big = tier == "thorough"
    trees = kgen.cond_trees(depth=3, max_arity=6 if big else 4, delays=st.sampled_from([0, 1, 1, 2, 0.5, 0.3]))
    pol = kgen.policies(bias=["continue", "continue"], dl=st.sampled_from(DELAYS))
    mixed = kgen.programs(WEIGHTS, max_bodies=4, max_instrs=6, max_start=6 if big else 5, max_nev=3, min_nev=1,
                          trees=trees, pol=pol, delay_set=DELAYS)
    roles = kgen.programs_roles([WORKER, DRIVER, WAITER, WAITER, DRIVER], max_instrs=5, max_start=7 if big else 6,
                                max_nev=3, min_nev=1, min_start=3, trees=trees, pol=pol, delay_set=[0, 1, 1, 2, 0.5])
    def late(t):
        """conditions built over operands that are all processed already, one of them failed (and handled at the time) - in every
        position of the operand list"""
        mode, order, extra, d = t
        ops = [["ev", 0], ["ev", 1], ["ev", 2]]
        ops = [ops[i] for i in order]
        if extra:
            ops.append(["to", d, "late"])
        tree = [mode, ops] if mode in ("all", "any") else [mode, [mode, ops[0], ops[1]], ops[2]]
        return {"init": 0, "nev": 3, "start": [1, 1, 1, 0, 2],
                "bodies": [[["succeed", 1, "one"], ["fail", 0, ["ValueError", ["zero"]]], ["succeed", 2, 2]],
                           [["wait", 0, "continue", "continue"]],
                           [["timeout", 1, None, "continue", "continue"], ["wait_cond", tree, "continue", "continue"]]]}
    fam = st.tuples(st.sampled_from(["all", "all", "any", "and", "or"]), st.permutations([0, 1, 2]), st.booleans(),
                    st.sampled_from([0, 1])).map(late)
    return kgen.weighted([(roles, 4), (mixed, 2), (fam, 1)])


# ---- foreign-environment facet
def run_foreign(case):
    env1, env2 = Environment(), Environment()
    evs = []
    foreign = False
    for i in range(case["n"]):
        f = i in case["foreign"]
        foreign = foreign or f
        evs.append((env2 if f else env1).event())
    mode = case["mode"]
    try:
        if mode == "all":
            env1.all_of(evs)
        elif mode == "any":
            env1.any_of(evs)
        elif mode == "and":
            evs[0] & evs[1]
            foreign = evs[0].env is not evs[1].env
        else:
            evs[0] | evs[1]
            foreign = evs[0].env is not evs[1].env
    except ValueError:
        if not foreign:
            raise Violation("C05.foreign", "ValueError although all operands share the environment", "C05.foreign/spurious")
    except Exception as e:
        raise crash("C05.foreign", e)
    else:
        if foreign:
            raise Violation("C05.foreign", f"mixing environments accepted ({case})", "C05.foreign/accepted")
    return {"nontrivial": foreign and case["n"] >= 2, "classes": ["foreign" if foreign else "same-env"]}


def foreign_strategy(tier):
    return st.integers(2, 5).flatmap(lambda n: st.fixed_dictionaries({
        "n": st.just(n), "mode": st.sampled_from(["all", "any", "and", "or"]),
        "foreign": st.lists(st.integers(0, n - 1), max_size=2, unique=True)}))


PROP = Property(
    "C05",
    rule=("Generated programs whose processes build condition trees (depth<=3, arity 0-4(6), all_of/any_of/&/|, leaves = "
          "fresh timeouts, shared events succeeded/failed by other processes, processes; leaves possibly already processed "
          "at construction) and wait on them. Oracle: a reference evaluator over the harness's record of when each operand "
          "was processed gives the decision instant (all: last, any: first, empty/already satisfied: construction, operand "
          "failure first: fails with that exception); the waiter must resume at exactly that instant, once; the received "
          "ConditionValue must list exactly the leaves processed in a step before the condition's own, in operand order, "
          "with their values (keys/items/todict/in/KeyError); values do not change afterwards; operand failure counts as "
          "handled iff the condition was still undecided (C02(f) prediction); conditions never trigger undecided. "
          "Non-trivial = a waited tree of depth>=2 with >=2 leaves processed at its decision instant. Second facet: "
          "conditions mixing two environments must raise ValueError."),
    facets=[Facet("trees", strategy, run_case, quick=2500, thorough=15000,
                  essential=["same-instant operands", "already-processed operand", "operand fails first", "empty list",
                             "operands given as a lazy iterable", "empty lazy iterable of operands",
                             "caller's operand list changed after construction",
                             "operand completed after the condition; looked up in the old value",
                             "nested", "value with unprocessed leaves missing", "same event twice in one tree"]),
            Facet("foreign_env", foreign_strategy, run_foreign, quick=200, thorough=500)],
    assumptions=["instants, not steps, decide clause (a)", "an event may occur several times in one tree; it then counts once per "
                 "occurrence and appears once per occurrence in the value"],
)
