"""C15 - round-robin schedulers give each backlogged class its per-visit allowance; DRR credit and fairness (DESIGN 4/C15)."""
from fractions import Fraction

from hypothesis import strategies as st

from ..core import kgen, schedlab
from ..core.common import HarnessError, Violation
from ..core.netlab import F
from ..runner import Facet, Property


def reference(spec, arrivals):
    """Reference visitor written from the statement. arrivals: [(time Fraction, key, size, class)] in arrival order.
    Returns the transmission sequence [(key, exit time)]. Visibility: an arrival is seen at a decision iff its instant is
    <= the decision instant (the generator guarantees no arrival coincides with a transmission end after t=0)."""
    kind = spec["kind"]
    rate = F(spec["rate"])
    order = [c for c, _ in spec["table"]]
    val = {c: v for c, v in spec["table"]}
    if kind == "DRR":
        mn = min(F(v) for v in val.values())
        Q = {c: 1500 * F(val[c]) / mn for c in order}
    credit = {c: F(0) for c in order}
    queues = {c: [] for c in order}
    pend = list(arrivals)
    out = []
    t = F(0)
    p = 0
    visits_with_skip = 0
    rounds = 0

    def admit(now):
        while pend and pend[0][0] <= now:
            a = pend.pop(0)
            queues[a[3]].append(a)

    def serve(c):
        nonlocal t
        a = queues[c].pop(0)
        t = max(t, a[0]) + F(8 * a[2]) / rate
        out.append((a[1], t))
        admit(t)
        return a

    guard = 0
    while True:
        guard += 1
        if guard > 100000:
            raise HarnessError("reference visitor does not terminate")
        admit(t)
        if not any(queues.values()):
            if not pend:
                break
            t = pend[0][0]
            admit(t)
            p = 0           # after an idle period only one class is non-empty: the start position is immaterial
        c = order[p % len(order)]
        if p % len(order) == 0:
            rounds += 1
        p += 1
        if not queues[c]:
            continue
        if kind == "RR":
            serve(c)
        elif kind == "WRR":
            for _ in range(int(val[c])):
                if not queues[c]:
                    break
                serve(c)
        else:
            credit[c] += Q[c]
            while queues[c] and queues[c][0][2] <= credit[c]:
                a = serve(c)
                credit[c] -= a[2]
            if queues[c]:
                visits_with_skip += 1
            else:
                credit[c] = F(0)
    return out, rounds, visits_with_skip


def run_rr(case):
    run = schedlab.Run(case, clause="C15.no_exception")
    kind = case["kind"]
    fn, _ = schedlab.f2c_fn(case)
    sched = run.sched
    lmax = max(w[2] for w in case["wl"])
    if kind == "DRR":
        mn = min(F(v) for _, v in case["table"])
        Q = {c: 1500 * F(v) / mn for c, v in case["table"]}

        def credit_bounds():
            for c, q in Q.items():
                d = sched.deficit[c]
                if not (0 <= d < q + lmax):
                    run.lab.flag("C15.credit_bounds", f"deficit[{c}]={d} outside [0, quantum {float(q)} + Lmax {lmax})",
                                 "C15.credit_bounds/" + ("negative" if d < 0 else "high"))
                if sched.quantum[c] != q:
                    run.lab.flag("C15.quantum", f"quantum[{c}]={sched.quantum[c]}, expected 1500*w/min(w)={float(q)}", "C15.quantum")
        run.lab.after_step.append(credit_bounds)
    run.go()
    run.check_all_exited()
    tl = run.timeline(True)
    classes = {kind}
    # (a) reference visitor
    arrivals = [(F(r.now), id(r.pkt), r.snap[3], fn(r.snap[1]) if kind == "DRR" else r.snap[1]) for r in run.entry.recs]
    ref, rounds, skips = reference(case, arrivals)
    got = [(id(r.pkt), F(r.now)) for r in run.out.recs]
    if [k for k, _ in ref] != [k for k, _ in got]:
        names = {id(r.pkt): (r.snap[0], r.snap[1]) for r in run.entry.recs}
        i = next(i for i, (a, b) in enumerate(zip(ref, got)) if a[0] != b[0])
        raise Violation("C15.visit_order", f"{kind}: transmission #{i + 1} is (packet, flow) {names[got[i][0]]}, the reference visitor "
                                           f"(declaration order {[c for c, _ in case['table']]}, allowances {case['table']}) sends "
                                           f"{names[ref[i][0]]}; so far {[names[k] for k, _ in got[:i]]}", "C15.visit_order/" + kind)
    if ref != got:
        raise Violation("C15.visit_order", "same order but different exit instants", "C15.visit_order/instants")
    if rounds >= 3:
        classes.add(">=2 full rounds")
    if skips:
        classes.add("head larger than remaining credit (parked)")
    # (c) DRR fairness over every period in which two classes stay backlogged
    nt = rounds >= 3 and len({a[3] for a in arrivals}) >= 2
    if kind == "DRR":
        nt = nt and skips > 0
        events = [(F(r.now), 1, 0, r, "in") for r in run.entry.recs] + [(F(r.now), 0, i, r, "out") for i, r in enumerate(run.out.recs)]
        events.sort(key=lambda e: (e[0], e[1], e[2]))
        cls = list(Q)
        backlog = {c: 0 for c in cls}
        # after each exit: which classes are backlogged (have packets waiting or in transmission)
        timeline = []
        for t, _, _, r, k in events:
            c = fn(r.snap[1])
            if k == "in":
                backlog[c] += 1
            else:
                backlog[c] -= 1
                timeline.append((c, r.snap[3], {x for x in cls if backlog[x] > 0}))
        checked = 0
        for ia, i in enumerate(cls):
            for j in cls[ia + 1:]:
                bound = 4 + 3 * lmax * (1 / Q[i] + 1 / Q[j])
                # maximal windows of consecutive exits with i and j both backlogged before and after
                n = len(timeline)
                a = 0
                while a < n:
                    bi = bj = F(0)
                    b = a
                    while b < n:
                        c, size, alive = timeline[b]
                        both_before = b == 0 or (i in timeline[b - 1][2] and j in timeline[b - 1][2]) or b == a
                        if c == i:
                            bi += size
                        elif c == j:
                            bj += size
                        if not (i in alive and j in alive):
                            break
                        d = abs(bi / Q[i] - bj / Q[j])
                        checked += 1
                        if d >= bound:
                            raise Violation("C15.drr_fairness", f"classes {i},{j} stayed backlogged over exits {a + 1}..{b + 1}: "
                                                                f"bytes/quantum differ by {float(d):.4g} >= 4 + 3*Lmax*(1/Qi+1/Qj) = "
                                                                f"{float(bound):.4g}", "C15.drr_fairness")
                        b += 1
                    a += 1
                    # a window may only start where both are backlogged
                    while a < n and not (a > 0 and i in timeline[a - 1][2] and j in timeline[a - 1][2]):
                        a += 1
        if checked > 8:
            classes.add("fairness windows checked")
    return {"nontrivial": nt, "classes": sorted(classes)}


def strategy_for(kind):
    def strat(tier):
        big = tier == "thorough"
        if kind == "RR":
            val = st.just(1)
        elif kind == "WRR":
            val = st.integers(1, 5)
        else:
            val = st.sampled_from([1, 2, 3, 4, 1.5, 2.5])
        sizes = st.sampled_from([64, 128, 256, 512, 1024, 1536, 2048, 3072]) if kind != "DRR" else \
            st.sampled_from([64, 256, 512, 1024, 1536, 2048, 3072, 1500 - 36, 3000 - 8])

        def build(n):
            flows = st.permutations(list(range(6))).map(lambda p: list(p)[:n])
            ident = st.tuples(flows, st.lists(val, min_size=n, max_size=n)).map(
                lambda t: {"table": [[f, v] for f, v in zip(t[0], t[1])], "f2c": None, "flows": t[0]})
            if kind != "DRR" or n < 2:
                return ident
            many = st.tuples(flows, st.integers(1, n - 1), st.lists(val, min_size=n, max_size=n),
                             st.lists(st.integers(0, 4), min_size=n, max_size=n)).map(
                lambda t: {"table": [[10 + c, t[2][c]] for c in range(t[1])],
                           "f2c": [[f, 10 + (t[3][i] % t[1])] for i, f in enumerate(t[0])], "flows": t[0]})
            return kgen.weighted([(ident, 3), (many, 1)])

        def with_wl(tb):
            dyn = schedlab.sched_workload(tb["flows"], 50 if big else 32, exact=True, unique_offsets=True, sizes=sizes)
            stat = schedlab.sched_workload(tb["flows"], 50 if big else 36, static=True, sizes=sizes)
            wl = kgen.weighted([(dyn, 2), (stat, 2 if kind == "DRR" else 1)])
            return st.tuples(st.sampled_from([8 * 1024, 8 * 4096, 8 * 512]), wl).map(
                lambda t: {"kind": kind, "exact": True, "rate": t[0], "table": tb["table"], "f2c": tb["f2c"], "wl": t[1]})
        return st.integers(1, 5).flatmap(build).flatmap(with_wl)
    return strat


PROP = Property(
    "C15",
    rule=("RR(flows), WRR(weights 1-5), DRR(weights incl. non-integer ratios; identity and many-to-one flow2class) with permuted "
          "declaration orders; packet sizes below and above the quantum; classes that drain and refill mid-round; static backlogs. "
          "Arrivals after t=0 carry unique 2^-16 offsets so that no arrival coincides with a transmission end (visibility is "
          "then unambiguous). Oracle: (a) a reference visitor written from the statement (cyclic pointer over the declared "
          "classes, skipping empty ones; RR one packet; WRR up to w; DRR credit += 1500*w/min(w), send heads while covered, "
          "credit forgotten when the queue empties) replayed on the observed arrivals must produce exactly the observed "
          "transmission sequence and instants; (b) after every kernel step 0 <= deficit[c] < quantum_c + Lmax and quantum_c == "
          "1500*w_c/min(w); (c) over every run of consecutive exits during which classes i and j stay backlogged, |B_i/Q_i - "
          "B_j/Q_j| < 4 + 3*Lmax*(1/Q_i + 1/Q_j). Non-trivial = >=2 full rounds with >=2 classes (DRR: and a head packet parked "
          "for lack of credit)."),
    facets=[Facet("RR", strategy_for("RR"), run_rr, quick=600, thorough=4000, essential=[">=2 full rounds"]),
            Facet("WRR", strategy_for("WRR"), run_rr, quick=600, thorough=4000, essential=[">=2 full rounds"]),
            Facet("DRR", strategy_for("DRR"), run_rr, quick=800, thorough=6000,
                  essential=[">=2 full rounds", "head larger than remaining credit (parked)", "fairness windows checked"])],
    assumptions=["pointer position after an idle period is immaterial (a single class is non-empty then)",
                 "a WRR visit ends only when `weight` packets were sent or the class is empty"],
)
