"""C14 - WFQ and VirtualClock transmit in virtual-finish-stamp order (DESIGN 4/C14)."""
from fractions import Fraction

from hypothesis import strategies as st

from ..core import kgen, schedlab
from ..core.common import Violation
from ..core.netlab import F
from ..runner import Facet, Property
from . import c12

TOL = Fraction(1, 10 ** 9)


def wfq_stamps(run, spec):
    """F stamps recomputed in Fractions from the observed arrival/exit history with the statement's recurrences"""
    rate = F(spec["rate"])
    w = {c: F(v) for c, v in spec["table"]}
    fn, _ = schedlab.f2c_fn(spec)
    events = [("in", r.seq, r) for r in run.entry.recs] + [("out", r.seq, r) for r in run.out.recs]
    events.sort(key=lambda e: e[1])
    V = F(0)
    Fc = {c: F(0) for c in w}
    last = F(0)
    backlog = {}
    stamps = {}
    resets = 0
    for kind, _, r in events:
        t = F(r.now)
        if backlog:
            V += (t - last) / sum(w[c] for c in backlog)
        last = t
        c = fn(r.snap[1])
        if kind == "in":
            if not backlog:
                V = F(0)
                Fc = {k: F(0) for k in w}
            Fc[c] = max(Fc[c], V) + F(8 * r.snap[3]) / (rate * w[c])
            stamps[id(r.pkt)] = Fc[c]
            backlog[c] = backlog.get(c, 0) + 1
        else:
            backlog[c] -= 1
            if backlog[c] == 0:
                del backlog[c]
            if not backlog:
                V = F(0)
                Fc = {k: F(0) for k in w}
                resets += 1
    return stamps, resets


def vc_stamps(run, spec):
    vt = {c: F(v) for c, v in spec["table"]}
    fn, _ = schedlab.f2c_fn(spec)
    aux = {c: F(0) for c in vt}
    stamps = {}
    for r in run.entry.recs:
        c = fn(r.snap[1])
        aux[c] = max(F(r.now), aux[c]) + vt[c]
        stamps[id(r.pkt)] = aux[c]
    return stamps


def run_stamp(case):
    run = schedlab.Run(case, clause="C14.no_exception")
    run.go()
    return judge_stamp(run, case)


def run_twin(case):
    """two schedulers of one kind with the same table in one environment (the egress ports of a switch), each serving its own
    workload: the stamps of one are no business of the other"""
    first = schedlab.Run(case["scheds"][0], clause="C14.no_exception")
    second = schedlab.Run(case["scheds"][1], clause="C14.no_exception", lab=first.lab)
    first.go()
    a = judge_stamp(first, case["scheds"][0])
    b = judge_stamp(second, case["scheds"][1])
    return {"nontrivial": a["nontrivial"] or b["nontrivial"], "classes": sorted(set(a["classes"]) | set(b["classes"]) | {"twin schedulers"})}


def judge_stamp(run, case):
    run.check_all_exited()
    exact = case["exact"]
    tl = run.timeline(exact)
    classes = {case["kind"]}
    if case["kind"] == "WFQ":
        stamps, resets = wfq_stamps(run, case)
        if resets >= 2:
            classes.add("idle period resets virtual time")
    else:
        stamps = vc_stamps(run, case)
    # the implementation computes stamps in floating point; only with dyadic weights/vticks in the exact domain do its stamps
    # equal the reference's Fractions bit for bit - otherwise stamps closer than 1e-9 (relative) are treated as ties
    nice = (1, 2, 4, 0.5, 0.25, 0.125, 0.0625, 0)
    dyadic = bool(exact) and all(v in nice for _, v in case["table"])
    tol = 0 if dyadic else TOL
    disagree = 0
    for it in tl:
        s_served = stamps[id(it["in"].pkt)]
        for r in run.certainly_waiting(it):
            s_w = stamps[id(r.pkt)]
            if s_w < s_served - tol * max(1, abs(s_served)):
                raise Violation("C14.stamp_order",
                                f"{case['kind']} started packet {it['in'].snap[0]} (flow {it['in'].snap[1]}, stamp {float(s_served):.9g}) "
                                f"at t={float(it['s'])} while packet {r.snap[0]} (flow {r.snap[1]}, stamp {float(s_w):.9g}, waiting since "
                                f"t={r.now}) has a smaller stamp", "C14.stamp_order/" + case["kind"])
            if s_w == s_served:
                classes.add("equal stamps")
                if F(r.now) != F(it["in"].now):
                    classes.add("equal stamps, different arrival instants")
                if dyadic and F(r.now) < F(it["in"].now):
                    raise Violation("C14.tie_earlier_first", f"equal stamps: packet {it['in'].snap[0]} (arrived {it['in'].now}) served "
                                                             f"before packet {r.snap[0]} (arrived {r.now})", "C14.tie_earlier_first/" + case["kind"])
            if r.seq < it["in"].seq and s_w > s_served:
                disagree += 1
    if disagree:
        classes.add("stamp order overrides arrival order")
    if case["rate"] >= 2 ** 30:
        classes.add("stamps closer than a nanosecond")
    if any(a for a in case.get("ages", [])):
        classes.add("creation time differs from arrival time")
    fn, m = schedlab.f2c_fn(case)
    if m and len(set(m.values())) < len(m):
        classes.add("many-to-one flow2class")
    ws = {v for _, v in case["table"]}
    nt = disagree > 0 and len(ws) >= 2
    # (c) static backlog fairness for WFQ: while classes i, j both still have packets,
    #     |S_i/w_i - S_j/w_j| <= Lmax/w_i + Lmax/w_j, checked after every exit
    if case["kind"] == "WFQ" and case.get("static"):
        w = {c: F(v) for c, v in case["table"]}
        left = {}
        for r in run.entry.recs:
            left[fn(r.snap[1])] = left.get(fn(r.snap[1]), 0) + 1
        lmax = max(r.snap[3] for r in run.entry.recs)
        served = {c: 0 for c in left}
        for ro in run.out.recs:
            c = fn(ro.snap[1])
            served[c] += ro.snap[3]
            left[c] -= 1
            alive = [k for k in left if left[k] > 0]
            for i in alive:
                for j in alive:
                    if i < j:
                        d = abs(F(served[i]) / w[i] - F(served[j]) / w[j])
                        bound = F(lmax) / w[i] + F(lmax) / w[j]
                        if d > bound + tol * bound:
                            raise Violation("C14.static_fairness", f"classes {i},{j} both backlogged: normalised service differs by "
                                                                   f"{float(d):.6g} > Lmax/w_i + Lmax/w_j = {float(bound):.6g}", "C14.static_fairness")
        classes.add("static backlog fairness checked")
        nt = nt or len(left) >= 2
    return {"nontrivial": nt, "classes": sorted(classes)}


def strategy_for(kind):
    def strat(tier):
        big = tier == "thorough"
        if kind == "WFQ":
            # weights are shares of any scale: tables whose backlogged weights sum to less than 1 are as legal as integer ones
            val = kgen.weighted([(st.sampled_from([1, 2, 3, 4, 5, 1.5, 0.5]), 3), (st.sampled_from([0.5, 0.25, 0.125, 0.0625, 0.3]), 1)])
        else:
            val = st.sampled_from([1 / 8, 1 / 4, 1 / 2, 1, 2, 1 / 16, 0.3, 0])

        def build(n):
            flows = st.permutations(list(range(6))).map(lambda p: list(p)[:n])
            ident = st.tuples(flows, st.lists(val, min_size=n, max_size=n)).map(
                lambda t: {"table": [[f, v] for f, v in zip(t[0], t[1])], "f2c": None, "flows": t[0]})
            ncls = st.integers(1, n - 1) if n > 1 else st.just(1)
            many = st.tuples(flows, ncls, st.lists(val, min_size=n, max_size=n), st.lists(st.integers(0, 4), min_size=n, max_size=n)).map(
                lambda t: {"table": [[10 + c, t[2][c]] for c in range(t[1])],
                           "f2c": [[f, 10 + (t[3][i] % t[1])] for i, f in enumerate(t[0])], "flows": t[0]})
            return kgen.weighted([(ident, 3), (many, 1)])

        def with_wl(tb):
            def dom(exact, static):
                rate = schedlab.nice_rate() if exact else st.sampled_from([1e4, 56000.0, 123456.7])
                if static:
                    wl = schedlab.sched_workload(tb["flows"], 40 if big else 30, static=True,
                                                 sizes=st.sampled_from([64, 128, 256, 512, 1024, 1500, 3000, 100]))
                else:
                    wl = schedlab.sched_workload(tb["flows"], 40 if big else 26, exact=exact)
                ages = st.lists(st.sampled_from([0, 0, 0.5, 2, 0.25, 8]), min_size=1, max_size=7)
                return st.tuples(rate, wl, ages).map(lambda t: {"kind": kind, "exact": exact, "static": static, "rate": t[0],
                                                                "table": tb["table"], "f2c": tb["f2c"], "wl": t[1], "ages": t[2]})
            return kgen.weighted([(dom(True, False), 4), (dom(True, True), 2), (dom(False, False), 1)])
        general = st.integers(2, 5).flatmap(build).flatmap(with_wl)
        if kind != "WFQ":
            return general

        def ties(n):
            """many equal stamps among packets that arrive at different instants: equal weights, sizes that are multiples of 64, a
            long first transmission during which the others arrive on a 1/128 grid; later arrivals were created earlier"""
            arr = st.lists(st.tuples(st.integers(0, 32), st.integers(0, n - 1), st.sampled_from([64, 128, 192, 256])), min_size=4, max_size=14)
            return arr.map(lambda xs: {
                "kind": "WFQ", "exact": True, "static": False, "rate": 8192, "table": [[f, 1] for f in range(n)], "f2c": None,
                "wl": [[0, 0, 2048, None, 0]] + sorted([[k / 128, f, sz, None, 0] for k, f, sz in xs], key=lambda w: w[0]),
                "ages": [0] + [w * 4 for w in range(1, len(xs) + 1)]})
        def fast(n):
            """a very fast link: stamps of packets a byte apart differ by 2**-33 s and less - far below any decimal rounding, yet
            exactly representable; everything is queued at t=0, larger stamps first as often as not"""
            arr = st.lists(st.tuples(st.integers(0, n - 1), st.sampled_from([64, 65, 66, 67, 1500, 1501, 1502, 128])), min_size=5, max_size=16)
            wts = st.lists(st.sampled_from([1, 2, 4, 0.5]), min_size=n, max_size=n)
            return st.tuples(arr, wts).map(lambda t: {
                "kind": "WFQ", "exact": True, "static": True, "rate": 8 * 2 ** 33, "table": [[f, t[1][f]] for f in range(n)], "f2c": None,
                "wl": [[0, f, sz, None, 0] for f, sz in t[0]], "ages": [0]})
        return kgen.weighted([(general, 6), (st.integers(2, 4).flatmap(ties), 1), (st.integers(2, 4).flatmap(fast), 1)])
    return strat


def twin_strategy(tier):
    def second(t):
        """the twin has the first scheduler's kind, table, mapping and rate; it serves the other draw's workload (restricted to the
        table's flows, judged by that workload's own static flag and ages) or, if nothing is left of it, a copy of the first's"""
        flows = {f for f, _ in (t[0]["f2c"] or t[0]["table"])}
        wl = [w for w in t[1]["wl"] if w[1] in flows]
        sec = dict(t[0])
        if len(wl) >= 2:
            sec.update(wl=wl, static=t[1].get("static", False), ages=t[1].get("ages", [0]))
        return {"scheds": [t[0], sec]}

    def pair(kind):
        base = strategy_for(kind)(tier)
        return st.tuples(base, base).filter(lambda t: t[0]["exact"] == t[1]["exact"] and t[0]["rate"] < 2 ** 30 and t[1]["rate"] < 2 ** 30).map(second)
    return st.sampled_from(["WFQ", "WFQ", "VC"]).flatmap(pair)


PROP = Property(
    "C14",
    rule=("WFQ (weights) and VC (vticks) with int and float tables, identity and many-to-one flow2class, exact and float domains; "
          "workloads: static backlogs (all at t=0), staggered starts, idle periods that reset virtual time, equal stamps. Oracle: "
          "stamps are recomputed in Fractions from the observed arrival/exit history with the statement's recurrences (WFQ: V "
          "advances by dt/sum of backlogged weights between observed actions, F_c = max(F_c,V) + 8*size/(rate*w_c) for every "
          "arrival incl. the first of a busy period, V and all F reset when the scheduler empties; VC: aux_c = max(now,aux_c) + "
          "vtick_c); at each service start the served packet's stamp <= the stamp of every packet whose arrival was observed "
          "before the previous exit (1e-9 relative tolerance in the float domain); on exactly equal stamps the earlier instant "
          "of arrival goes first; no exception on equal stamps; static WFQ backlog: |S_i/w_i - S_j/w_j| <= Lmax/w_i + Lmax/w_j "
          "after every exit while both classes still have packets. Non-trivial = >=2 distinct weights and >=1 service decision "
          "where stamp order and arrival order disagree."),
    facets=[Facet("WFQ", strategy_for("WFQ"), run_stamp, quick=2400, thorough=6000,
                  essential=["stamp order overrides arrival order", "equal stamps", "idle period resets virtual time",
                             "static backlog fairness checked", "many-to-one flow2class",
                             "equal stamps, different arrival instants", "creation time differs from arrival time",
                             "stamps closer than a nanosecond"]),
            Facet("VC", strategy_for("VC"), run_stamp, quick=900, thorough=5000,
                  essential=["stamp order overrides arrival order", "equal stamps", "many-to-one flow2class"]),
            Facet("twin", twin_strategy, run_twin, quick=400, thorough=2500, essential=["twin schedulers"])],
    assumptions=["a class is backlogged while it has packets waiting or in transmission",
                 "same-instant arrivals observed after the previous exit are not counted as waiting (set-valued decisions)"],
)
