"""C12 - schedulers are work-conserving, non-preemptive, rate-exact and per-flow FIFO; honest counters (DESIGN 4/C12)."""
from fractions import Fraction

from hypothesis import strategies as st

from onl.scheduler import Monitor

from ..core import kgen, netlab, schedlab
from ..core.common import HarnessError, Violation
from ..core.netlab import F
from ..runner import Facet, Property


def classify(run, tl, classes):
    # busy periods
    bp = []
    for it in tl:
        if it["idle_before"]:
            bp.append([])
        bp[-1].append(it)
    big = any(len(b) >= 3 and len({i["in"].snap[1] for i in b}) >= 2 for b in bp)
    exits = {i["x"] for i in tl}
    at_end = any(F(r.now) in exits for r in run.entry.recs)
    if big:
        classes.add("busy period >=3 packets from >=2 flows")
    if at_end:
        classes.add("arrival exactly at a transmission end")
    if len(bp) >= 2:
        classes.add("idle gap between busy periods")
    _, m = schedlab.f2c_fn(run.spec)
    if m and len(set(m.values())) < len(m):
        classes.add("many-to-one flow2class")
    if m and any(c in m and c != f for f, c in m.items()):
        classes.add("class ids that are other flows' ids")
    return big and at_end


def run_sched(case):
    run = schedlab.Run(case)
    run.go()
    return judge(run, case)


def run_twin(case):
    """two (or three) schedulers of one kind with the same table live in one environment, as the egress ports of a switch do;
    each serves its own workload and is judged on its own: instances share nothing"""
    first = schedlab.Run(case["scheds"][0])
    runs = [first] + [schedlab.Run(sp, lab=first.lab) for sp in case["scheds"][1:]]
    first.go()
    nts, classes = [], set()
    for run, sp in zip(runs, case["scheds"]):
        info = judge(run, sp)
        nts.append(info["nontrivial"])
        classes.update(info["classes"])
    busy = [{(float(it["s"]), float(it["x"])) for it in r.timeline(sp["exact"])} for r, sp in zip(runs, case["scheds"])]
    if len(busy) >= 2 and any(a[0] < b[1] and b[0] < a[1] for a in busy[0] for b in busy[1]):
        classes.add("twins transmitting at the same time")
    return {"nontrivial": sum(nts) >= 1 and "twins transmitting at the same time" in classes, "classes": sorted(classes)}


def run_detached(case):
    """the same workload served twice: with a recording next hop and with no next hop at all (out = None). Handing a packet on
    schedules nothing, so the two runs must agree step by step on the clock, the per-flow counters and the packet in service"""
    a = schedlab.Run(case, record_states=True)
    a.go()
    info = judge(a, case)
    b = schedlab.Run(case, detach_out=True)
    b.go()
    for i, (sa, sb) in enumerate(zip(a.states, b.states)):
        if sa != sb:
            raise Violation("C12.counters", f"without a next hop, after step {i + 1}: (now, (flow, size, bytes)..., packet in service) = "
                                            f"{sb}, with a next hop {sa}", "C12.counters/no-next-hop")
    if len(a.states) != len(b.states):
        raise Violation("C12.counters", f"{len(b.states)} steps without a next hop, {len(a.states)} with one", "C12.counters/no-next-hop-steps")
    p = b.sched.packet_in_service
    if p is not None or b.sched.total_packets != 0:
        raise Violation("C12.in_service", f"after the last transmission: packet_in_service={p!r}, total_packets={b.sched.total_packets}",
                        "C12.in_service/idle-no-next-hop")
    return {"nontrivial": info["nontrivial"], "classes": sorted(set(info["classes"]) | {"served without a next hop"})}


def judge(run, case):
    classes = {case["kind"]}
    run.check_all_exited()
    run.check_flow_fifo()
    tl = run.timeline(case["exact"])
    # packet_in_service: strictly inside a transmission it is that packet; idle -> None
    for step, now, p in run.samples:
        t = F(now)
        inside = [it for it in tl if it["s"] < t < it["x"]]
        if inside:
            if p is not inside[0]["in"].pkt:
                raise Violation("C12.in_service", f"at t={now} packet_in_service is {p!r}, transmitting packet "
                                                  f"{inside[0]['in'].snap[0]}", "C12.in_service")
            classes.add("sample inside a transmission")
        elif not any(it["s"] <= t <= it["x"] for it in tl) and p is not None:
            raise Violation("C12.in_service", f"at t={now} the scheduler is idle but packet_in_service={p!r}", "C12.in_service/idle")
    nt = classify(run, tl, classes)
    return {"nontrivial": nt, "classes": sorted(classes)}


def run_monitor(case):
    if case.get("bigids") and case["f2c"] is None:
        # flow ids are arbitrary integers (beyond CPython's small-int cache): 1000, 1001, ...
        case = dict(case, table=[[1000 + f, v] for f, v in case["table"]], wl=[[w[0], 1000 + w[1]] + list(w[2:]) for w in case["wl"]])
    script = list(case["sample_gaps"])

    def dist():
        return script.pop(0) if script else 1e9
    holder = {}

    def attach(run):
        holder["m"] = Monitor(run.lab.env, run.sched, dist, service_included=case["included"])
    run = schedlab.Run(case, monitor=attach)
    horizon = case["wl"][-1][0] + 64
    run.go(until=horizon)
    mon = holder["m"]
    tl = run.timeline(True)
    classes = set()
    t = F(0)
    times = []
    for g in case["sample_gaps"]:
        t += F(g)
        if t < horizon:
            times.append(t)
    ins = run.entry.recs
    by_obj = {id(r.pkt): r for r in ins}
    for f in sorted({r.snap[1] for r in ins}):
        first_seen = min(F(r.now) for r in ins if r.snap[1] == f)
        # a flow is sampled from the first sample instant after its first packet arrived
        mine = [ts for ts in times if ts > first_seen]
        got_n, got_b = list(mon.sizes[f]), list(mon.byte_sizes[f])
        # a scheduler may announce a flow before its first packet (DRR registers its classes up front): align at the end
        if len(got_n) < len(mine) or len(got_b) != len(got_n) or len(got_n) > len(times):
            raise Violation("C12.monitor", f"flow {f}: {len(got_n)} samples, {len(mine)} sample instants since its first packet",
                            "C12.monitor/count")
        got_n, got_b = got_n[len(got_n) - len(mine):], got_b[len(got_b) - len(mine):]
        for i, ts in enumerate(mine):
            if any(ts in (F(r.now),) for r in ins) or any(ts in (it["s"], it["x"]) for it in tl):
                classes.add("coincident sample skipped")
                continue
            held = [it for it in tl if F(it["in"].now) < ts < it["x"] and it["in"].snap[1] == f]
            held_n = len(held) + sum(1 for r in ins if r.snap[1] == f and F(r.now) < ts and all(it["in"] is not r for it in tl))
            held_b = sum(it["in"].snap[3] for it in held) + sum(r.snap[3] for r in ins if r.snap[1] == f and F(r.now) < ts
                                                                and all(it["in"] is not r for it in tl))
            serving = [it for it in tl if it["s"] < ts < it["x"]]
            mine_serv = [it for it in serving if it["in"].snap[1] == f]
            if case["included"]:
                want_n, want_b = held_n, held_b
            else:
                want_n, want_b = held_n - len(mine_serv), held_b - sum(it["in"].snap[3] for it in mine_serv)
            if mine_serv:
                classes.add("sample while a packet of the flow is in service")
            if held_n - len(mine_serv) > 0:
                classes.add("sample with a queue")
            if got_n[i] != want_n or got_b[i] != want_b:
                raise Violation("C12.monitor", f"flow {f} sample at t={float(ts)}: sizes={got_n[i]} bytes={got_b[i]}, expected "
                                               f"{want_n}/{want_b} ({'incl.' if case['included'] else 'excl.'} packet in service)",
                                "C12.monitor/" + ("included" if case["included"] else "excluded"))
    if case.get("probe_all") and times and any(min(F(r.now) for r in ins if r.snap[1] == f) > max(times[0], F(case["probe_from"]))
                                               and F(case["probe_from"]) > times[0] for f in {r.snap[1] for r in ins}):
        classes.add("flow first sampled, then polled, then sends its first packet")
    if case.get("bigids") and case["f2c"] is None:
        classes.add("flow ids beyond the small-integer cache")
    nt = "sample while a packet of the flow is in service" in classes and "sample with a queue" in classes
    return {"nontrivial": nt, "classes": sorted(classes)}


# -------------------------------------------------------------------------------------------------- strategies
WEIGHTS_POS = st.sampled_from([1, 2, 3, 4, 5, 1.5, 0.5])


def table_strategy(kind):
    """(table, f2c, flows) for a scheduler kind; many-to-one maps use class ids disjoint from flow ids"""
    nfl = st.integers(1, 5)
    if kind == "SP":
        val = kgen.weighted([(st.integers(1, 4), 3), (st.sampled_from([1.25, 1.75, 0.5, 2.5]), 1)])
    elif kind == "VC":
        val = st.sampled_from([1 / 8, 1 / 4, 1 / 2, 1, 2, 0.3, 0, 0])
    elif kind in ("WRR", "DRR"):
        val = st.integers(1, 4) if kind == "WRR" else st.sampled_from([1, 2, 3, 4, 1.5])
    else:
        val = WEIGHTS_POS

    def build(n):
        flows = st.permutations(list(range(6))).map(lambda p: list(p)[:n])
        if kind in ("RR", "WRR"):
            return st.tuples(flows, st.lists(val, min_size=n, max_size=n)).map(
                lambda t: {"table": [[f, v] for f, v in zip(t[0], t[1])], "f2c": None, "flows": t[0]})
        if kind == "SP":
            # priorities are per flow; flow2class only labels packets
            from .c13 import sp_f2c
            return st.tuples(flows, st.lists(val, min_size=n, max_size=n), st.integers(0, 3)).map(
                lambda t: {"table": [[f, v] for f, v in zip(t[0], t[1])], "f2c": sp_f2c(t[0], t[2]), "flows": t[0]})
        # class-keyed tables
        ident = st.tuples(flows, st.lists(val, min_size=n, max_size=n)).map(
            lambda t: {"table": [[f, v] for f, v in zip(t[0], t[1])], "f2c": None, "flows": t[0]})
        ncls = st.integers(1, max(1, n - 1)) if n > 1 else st.just(1)
        many = st.tuples(flows, ncls, st.lists(val, min_size=n, max_size=n), st.lists(st.integers(0, 4), min_size=n, max_size=n)).map(
            lambda t: {"table": [[10 + c, t[2][c]] for c in range(t[1])],
                       "f2c": [[f, 10 + (t[3][i] % t[1])] for i, f in enumerate(t[0])], "flows": t[0]})
        # class ids are opaque: they may coincide with the ids of flows that belong to other classes (f -> the next flow's id)
        rot = st.tuples(flows, st.lists(val, min_size=n, max_size=n)).map(
            lambda t: {"table": [[f, v] for f, v in zip(t[0], t[1])],
                       "f2c": [[f, t[0][(i + 1) % len(t[0])]] for i, f in enumerate(t[0])], "flows": t[0]})
        return kgen.weighted([(ident, 2), (many, 1), (rot, 1)] if n > 1 else [(ident, 2), (many, 1)])
    return nfl.flatmap(build)


def spec_strategy(kind, tier, exact_only=False, **wl_kw):
    big = tier == "thorough"

    def build(tb):
        def with_domain(exact):
            rate = schedlab.nice_rate() if exact else st.sampled_from([1e4, 56000.0, 123456.7, 8e5, 3e6, 7e5, 2.4e10, 1.5e6])
            kw = dict(wl_kw)
            if exact and "sizes" not in kw:
                kw["sizes"] = st.sampled_from(schedlab.SIZES_NICE + [0, 64, 128])      # zero-length packets are legal
            wl = schedlab.sched_workload(tb["flows"], 40 if big else 24, exact=exact, **kw)
            return st.tuples(rate, wl).map(lambda t: {"kind": kind, "exact": exact, "rate": t[0], "table": tb["table"],
                                                      "f2c": tb["f2c"], "wl": t[1]})
        if exact_only:
            return with_domain(True)
        return kgen.weighted([(with_domain(True), 4), (with_domain(False), 1)])
    return table_strategy(kind).flatmap(build)


def monitor_strategy(tier):
    kind = st.sampled_from(["SP", "WFQ", "DRR", "RR", "WRR", "VC"])
    gaps = st.lists(st.sampled_from([1 / 4096, 3 / 4096, 1 / 16 + 1 / 4096, 1 / 4 + 3 / 4096, 1 + 1 / 4096, 1 / 64 + 1 / 4096]),
                    min_size=4, max_size=30)

    def build(k):
        return st.tuples(spec_strategy(k, tier, exact_only=True), gaps, st.booleans(), st.booleans(),
                         st.sampled_from([0, 1 / 8192, 1 / 1024, 1 / 16, 1 / 4, 1])).map(
            lambda t: dict(t[0], sample_gaps=t[1], included=t[2], probe_all=t[3], probe_from=t[4], bigids=bool(len(t[1]) % 2)))
    return kind.flatmap(build)


def twin_strategy(tier):
    def build(kind):
        return spec_strategy(kind, tier, exact_only=True).flatmap(
            lambda sp: st.lists(schedlab.sched_workload([f for f, _ in (sp["f2c"] or sp["table"])],
                                                        24, exact=True, sizes=st.sampled_from(schedlab.SIZES_NICE)),
                                min_size=1, max_size=2).map(lambda wls: {"scheds": [sp] + [dict(sp, wl=w) for w in wls]}))
    return st.sampled_from(["DRR", "DRR", "WFQ", "SP", "VC", "RR", "WRR"]).flatmap(build)


def facet_for(kind):
    return Facet(kind, lambda tier, k=kind: spec_strategy(k, tier), run_sched, quick=750, thorough=3000,
                 essential=["busy period >=3 packets from >=2 flows", "arrival exactly at a transmission end",
                            "idle gap between busy periods", "sample inside a transmission"]
                 + (["many-to-one flow2class"] if kind in ("WFQ", "VC", "DRR") else []))


PROP = Property(
    "C12",
    rule=("Each of SP, WFQ, VC, DRR, RR, WRR with generated rate (exact domain: rates/sizes for which transmission times are "
          "dyadic; float domain), priority/weight/vtick tables over 1-5 flows, identity and many-to-one flow2class (class ids "
          "disjoint from flow ids), workloads over the configured flows with bursts, idle gaps and arrivals exactly at "
          "transmission ends (early and late injection). Oracle, independent of which packet is chosen: exit_k == s_k + "
          "8*size_k/rate with s_k = max(exit_{k-1}, earliest arrival among packets not yet transmitted) (== exact domain), the "
          "served packet arrived <= s_k (never idle with a backlog, no overlap, no abort); per-flow FIFO; every packet "
          "transmitted exactly once, same object and fields; after every kernel step size(f)/byte_size(f)/total_packets == "
          "packets of f entered and not yet transmitted; packet_in_service is the packet being transmitted (None when idle); "
          "Monitor samples at off-grid instants equal those numbers with the packet in service included/excluded. Non-trivial "
          "= a busy period with >=3 packets from >=2 flows and an arrival exactly at a transmission end."),
    facets=[facet_for(k) for k in schedlab.KINDS] + [
        Facet("no_next_hop", lambda tier: st.sampled_from(list(schedlab.KINDS)).flatmap(lambda k: spec_strategy(k, tier, exact_only=True)),
              run_detached, quick=300, thorough=2000, essential=["served without a next hop"]),
        Facet("twin", twin_strategy, run_twin, quick=400, thorough=2500,
              essential=["twins transmitting at the same time", "busy period >=3 packets from >=2 flows"]),
        Facet("monitor", monitor_strategy, run_monitor, quick=1000, thorough=3000,
              essential=["sample while a packet of the flow is in service", "sample with a queue",
                         "flow first sampled, then polled, then sends its first packet", "flow ids beyond the small-integer cache"])],
    assumptions=["workloads use configured flows only, positive priorities/weights/vticks (others make the loops spin; outside "
                 "the statement)"],
)
