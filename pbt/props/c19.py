"""C19 - a Timer fires exactly at its expiry, and stop/restart always take effect (DESIGN 4/C19).

A case is a little scenario: a creator process makes the Timer at a generated instant; actor processes sleep generated
delays (so that their calls land before, exactly at - in both trigger orders - and after expiries) and call stop() /
restart(tau); the callback follows a script (nothing / restart(tau) / stop() at the i-th firing). The harness log
records calls and firings in execution order; a reference timer replays that log (same-instant order = observed order).
"""
from math import inf

from hypothesis import strategies as st

from onl.sim import Environment
from onl.utils import Timer

from ..core import kgen
from ..core.common import GRID, HarnessError, Inconclusive, Violation, WatchdogTrip, crash
from ..runner import Facet, Property

HORIZON = 30
TAUS = [1, 2, 3, 0.5, 0.25, 1.5, 0.1, 0.2, 0.3, 0.7]


SPECIAL_ARGS = {"@dict": {"seq": 7, "size": 512}, "@set": frozenset({3}), "@range": range(2), "@bytes": b"ab", "@emptydict": {}}


def real_args(args):
    """bare values that are iterable without being an argument list: a list or tuple is the argument list, anything else is ONE
    argument (JSON cases carry a token for them)"""
    return SPECIAL_ARGS[args] if isinstance(args, str) and args in SPECIAL_ARGS else args


def expected_args(args):
    args = real_args(args)
    if args is None:
        return ()
    if isinstance(args, (list, tuple)):
        return tuple(args)
    return (args,)


class Scenario:
    def __init__(self, case):
        self.case = case
        self.env = Environment(initial_time=case.get("init", 0))
        self.timer = None
        self.log = []
        self.in_cb = False
        self.fires = 0
        self.problems = []
        self.by_log = []

    def callback(self, *a, **kw):
        env = self.env
        self.log.append(("fire", env.now, a, kw))
        i = self.fires
        self.fires += 1
        script = self.case["cb"]
        act = script[i] if i < len(script) else None
        if act:
            self.in_cb = True
            try:
                # a callback may change its mind: several stop/restart calls in one callback run, the last one counts
                for a in (act[1:] if act[0] == "seq" else [act]):
                    self.call(a)
            finally:
                self.in_cb = False
        self.log.append(("fire_end", env.now))

    def call(self, act):
        env = self.env
        t = self.timer
        if t is None or act[0] == "nop":
            return      # "nop": the actor merely wakes up (its next sleep is then created at this instant)
        self.log.append(("op", env.now, act[0], act[1] if len(act) > 1 else None, self.in_cb))
        try:
            if act[0] == "stop":
                t.stop()
            else:
                t.restart(act[1])
        except (HarnessError, WatchdogTrip):
            raise
        except BaseException as e:
            self.problems.append(crash("C19.no_exception", e, f"in {act} at t={env.now}" + (" from the callback" if self.in_cb else "")))

    def creator(self):
        c = self.case
        yield self.env.timeout(c["t0"])
        kw = {}
        if c["args"] != "omit":
            kw["args"] = real_args(c["args"])
        if c["kwargs"] is not None:
            kw["kwargs"] = c["kwargs"]
        self.log.append(("create", self.env.now))
        self.timer = Timer(self.env, c["timeout"], self.callback, auto_restart=c["auto"], **kw)

    def bystander(self):
        """a second, untouched one-shot timer in the same environment: timers share nothing"""
        t0, tau = self.case["bystander"]
        yield self.env.timeout(t0)
        self.by_due = self.env.now + tau
        Timer(self.env, tau, lambda *a, **kw: self.by_log.append((self.env.now, a, kw)), args=["by", 0])

    def actor(self, script):
        for delay, act in script:
            yield self.env.timeout(delay)
            self.call(act)

    def run(self):
        env = self.env
        c = self.case
        order = c.get("order", 0)
        procs = [self.creator] + [lambda s=s: self.actor(s) for s in c["actors"]]
        # creator may be started before or after the actors (decides trigger order at coinciding instants)
        if order % 2:
            procs = procs[1:] + procs[:1]
        if c.get("bystander"):
            procs.insert(len(procs) // 2, self.bystander)
        for p in procs:
            env.process(p())
        n = 0
        try:
            while env.peek() < c.get("init", 0) + HORIZON:
                n += 1
                if n > 20000:
                    raise Inconclusive("step budget")
                env.step()
                if self.problems:
                    raise self.problems[0]
        except (Violation, HarnessError, WatchdogTrip, Inconclusive):
            raise
        except BaseException as e:
            if self.problems:
                raise self.problems[0]
            raise crash("C19.no_exception", e, f"escaped the run at t={env.now}")
        return env.peek() == inf


def judge(case, log, exhausted):
    """reference timer replayed over the observed log"""
    timeout, auto = case["timeout"], case["auto"]
    want_args = expected_args(None if case["args"] == "omit" else case["args"])
    want_kw = case["kwargs"] or {}
    E = None
    stopped = False
    spec = True
    period = timeout
    in_cb = False
    stats = {"fires": 0}
    last_fire = None
    ops_at = {}
    for e in log:
        t = e[1]
        if spec and E is not None and E < t:
            raise Violation("C19.missed", f"no firing at the expiry t={E!r} (next logged action at t={t!r})", "C19.missed")
        if e[0] == "create":
            E = t + timeout
        elif e[0] == "fire":
            stats["fires"] += 1
            if tuple(e[2]) != want_args or dict(e[3]) != want_kw:
                raise Violation("C19.args", f"callback got args={e[2]!r} kwargs={e[3]!r}, timer was given {want_args!r} {want_kw!r}",
                                "C19.args")
            if stopped:
                raise Violation("C19.fired_after_stop", f"callback fired at t={t!r} after stop()", "C19.fired_after_stop")
            if spec:
                if E is None:
                    raise Violation("C19.spurious_fire", f"callback fired at t={t!r} with no expiry pending "
                                                         f"(previous firing at {last_fire!r})", "C19.spurious_fire")
                if t != E:
                    raise Violation("C19.wrong_instant", f"callback fired at t={t!r}, expiry is {E!r}", "C19.wrong_instant")
            last_fire = t
            in_cb = True
            if auto:
                if period is None:
                    spec = False
                    E = None
                else:
                    E = t + period
            else:
                E = None
        elif e[0] == "fire_end":
            in_cb = False
        elif e[0] == "op":
            _, t, name, tau, from_cb = e
            ops_at[t] = ops_at.get(t, 0) + 1
            if E is not None and E == t:
                stats["op_at_expiry_before_fire"] = stats.get("op_at_expiry_before_fire", 0) + 1
            if last_fire == t and not from_cb:
                stats["op_at_expiry_after_fire"] = stats.get("op_at_expiry_after_fire", 0) + 1
            if from_cb:
                stats["op_from_callback_" + name] = stats.get("op_from_callback_" + name, 0) + 1
            if name == "stop":
                stopped = True
                E = None
            else:
                if stopped:
                    stats["restart_after_stop"] = stats.get("restart_after_stop", 0) + 1
                elif from_cb or E is not None:
                    E = t + tau
                    stats["restart_pending"] = stats.get("restart_pending", 0) + 1
                    if auto:
                        # the period of an auto-restart timer after restart(tau != timeout) is not specified
                        period = tau if tau == timeout else None
                else:
                    # one-shot timer that has already fired, restarted from outside: not specified
                    spec = False
                    stats["restart_of_fired_oneshot"] = stats.get("restart_of_fired_oneshot", 0) + 1
    end = case.get("init", 0) + HORIZON if not exhausted else inf
    if spec and E is not None and E < end:
        raise Violation("C19.missed", f"no firing at the expiry t={E!r} (run ended)", "C19.missed/end")
    if max(ops_at.values() or [0]) >= 2:
        stats["two_ops_one_instant"] = 1
    stats["spec"] = spec
    return stats


def run_case(case):
    sc = Scenario(case)
    exhausted = sc.run()
    stats = judge(case, sc.log, exhausted)
    classes = {k for k, v in stats.items() if v and k not in ("fires", "spec")}
    if case.get("bystander") and getattr(sc, "by_due", inf) < case.get("init", 0) + HORIZON:
        want = [(sc.by_due, ("by", 0), {})]
        if sc.by_log != want:
            raise Violation("C19.bystander", f"a second, untouched one-shot timer (created {case['bystander'][0]} after the start, "
                                             f"timeout {case['bystander'][1]}) fired {sc.by_log}, expected {want}", "C19.bystander")
        classes.add("second timer in the same environment")
    if stats["fires"] >= 2:
        classes.add(">=2 firings")
    if not stats["spec"]:
        classes.add("left the specified domain")
    if case.get("init"):
        classes.add("clock far from zero")
    if case["timeout"] == inf:
        classes.add("timer created with an infinite timeout")
    if not isinstance(case["args"], (list, tuple)) and case["args"] not in ("omit", None):
        classes.add("scalar args")
        if not case["args"]:
            classes.add("falsy scalar argument (0, '', False)")
        if isinstance(case["args"], str) and case["args"] in SPECIAL_ARGS:
            classes.add("iterable bare argument (dict, set, range, bytes)")
    at_expiry = stats.get("op_at_expiry_before_fire", 0) + stats.get("op_at_expiry_after_fire", 0)
    nt = at_expiry > 0 and (stats.get("op_from_callback_restart", 0) > 0 or stats.get("two_ops_one_instant", 0) > 0)
    return {"nontrivial": bool(nt), "classes": sorted(classes)}


def strategy(tier):
    dense = _strategy(tier, [1, 2, 0.5, 1, 0.3], [0, 1, 2, 0.5, 1, 0.5, 0.3])
    wide = _strategy(tier, TAUS, [0, 1, 2, 3, 0.5, 0.25, 1.5, 0.1, 0.2, 0.3, 0.7])
    # clocks that start far from zero (seconds since some epoch, long-running simulations); dyadic values keep every sum exact
    # a timer may be parked: an infinite timeout never expires, and a later restart(tau) arms it like any pending timer
    parked = _strategy(tier, [float("inf"), 1, 2, float("inf"), 0.5], [0, 1, 2, 0.5, 1])
    far = st.tuples(_strategy(tier, [1, 2, 0.5, 0.25, 1.5, 3], [0, 1, 2, 0.5, 0.25, 1.5]),
                    st.sampled_from([2 ** 31, 1700000000.0, 2 ** 40, 10 ** 9])).map(lambda t: dict(t[0], init=t[1]))
    return kgen.weighted([(dense, 3), (wide, 1), (far, 1), (parked, 1)])


def _strategy(tier, taus, delays):
    big = tier == "thorough"
    tau = st.sampled_from(taus)
    delay = st.sampled_from(delays)

    def build(timeout):
        same = st.just(timeout)
        tau2 = kgen.weighted([(tau, 2), (same, 2)])
        op2 = kgen.weighted([(st.just(["stop"]), 2), (st.tuples(st.just("restart"), tau2).map(list), 5), (st.just(["nop"]), 4)])
        actor2 = st.lists(st.tuples(delay, op2).map(list), min_size=2, max_size=7 if big else 5)
        one = kgen.weighted([(st.tuples(st.just("restart"), tau2).map(list), 3), (st.just(["stop"]), 1)])
        cb2 = kgen.weighted([(st.none(), 4), (st.tuples(st.just("restart"), tau2).map(list), 3), (st.just(["stop"]), 1),
                             (st.tuples(st.just("seq"), one, one).map(list), 1)])
        return st.fixed_dictionaries({
            "timeout": st.just(timeout),
            "auto": st.booleans(),
            "args": st.sampled_from(["omit", None, 7, "x", [1], [1, "b"], [], [[2]], 0, "", 0.0, False, [0], [None], "@dict", "@set", "@range", "@bytes",
                                     "@emptydict"]),
            "kwargs": st.sampled_from([None, None, {"k": 1}]),
            "t0": delay,
            "order": st.integers(0, 1),
            "actors": st.lists(actor2, min_size=1, max_size=3),
            "cb": st.lists(cb2, max_size=4),
            "bystander": st.one_of(st.none(), st.tuples(delay, tau).map(list)),
        })
    return tau.flatmap(build)


PROP = Property(
    "C19",
    rule=("Scenarios: a Timer(timeout from a grid of ints/dyadic/decimal floats, auto_restart, args in {omitted, None, scalar, "
          "lists, ()}, kwargs) is created by a process at a generated instant; 1-3 actor processes sleep generated grid delays "
          "and call stop()/restart(tau) (so calls land before, exactly at - in both trigger orders - and after expiries, "
          "several per instant); the callback follows a script (nothing/restart(tau)/stop() at the i-th firing). Oracle: a "
          "reference timer replayed over the harness log of calls and firings in execution order: every firing happens at "
          "exactly the pending expiry (t0+timeout; previous firing + timeout for auto-restart; r+tau after restart while "
          "pending or from the callback), never after stop(), never twice for one expiry, none is missed, with exactly the "
          "given arguments (a scalar is one argument); no call and no run step raises. Left unjudged as unspecified: restart "
          "of an already fired one-shot timer from outside its callback; the period after restart(tau != timeout) beyond the "
          "next firing. Non-trivial = a call at an expiry instant AND (a restart from the callback OR two calls at one instant)."),
    facets=[Facet("scenarios", strategy, run_case, quick=3000, thorough=20000,
                  essential=["op_at_expiry_before_fire", "op_at_expiry_after_fire", "op_from_callback_restart",
                             "op_from_callback_stop", "two_ops_one_instant", "second timer in the same environment", "clock far from zero", "scalar args", "falsy scalar argument (0, '', False)", "iterable bare argument (dict, set, range, bytes)", "restart_pending",
                             "restart_after_stop"])],
    assumptions=["same-instant order of a call and an expiry is taken from the harness log (DESIGN 3.5 rule 1)"],
)
