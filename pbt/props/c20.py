"""C20 - real-time pacing never runs ahead of the wall clock and alters no result (DESIGN 4/C20)."""
from math import inf

from hypothesis import strategies as st

import onl.sim.rt as rt_mod

from ..core import kdsl, kgen
from ..core.common import HarnessError, Inconclusive, Violation, WatchdogTrip, crash
from ..runner import Facet, Property
from .c03 import norm

WEIGHTS = {"timeout": 8, "burn": 5, "wait": 2, "succeed": 2, "join": 2, "spawn": 2, "interrupt": 1, "return": 1, "fail": 1}
DELAYS = [0, 1, 2, 0.5, 0.25, 1.5, 3, 0.125]
FACTORS = [0.0625, 0.125, 0.25, 0.5, 1, 2, 4]
BURNS = [0, 0.0625, 0.125, 0.25, 0.5, 1, 2, 4, 8]


def run_case(case):
    prog = case["prog"]
    factor, strict = case["factor"], case["strict"]
    clock = kdsl.VirtualClock(case["script"], start=case["t0"])
    old = (rt_mod.monotonic, rt_mod.sleep)
    rt_mod.monotonic, rt_mod.sleep = clock.monotonic, clock.sleep
    try:
        return _run(case, prog, factor, strict, clock)
    finally:
        rt_mod.monotonic, rt_mod.sleep = old


def _run(case, prog, factor, strict, clock):
    init = prog.get("init", 0)
    env = kdsl.TracingRealtimeEnvironment(initial_time=init, factor=factor, strict=strict)
    real_start = clock.t
    if env.factor != factor or env.strict != strict:
        raise Violation("C20.config", "factor/strict properties disagree with the constructor", "C20.config")
    h = env.h
    interp = kdsl.Interp(prog, env, clock=clock)
    classes = set()
    st_ = {"slept": 0, "late": 0, "near": 0, "raised": 0}
    retried_at = None
    cur = {}

    def on_probe(occ):
        # never early: at the moment the occurrence takes effect the wall clock has reached its due wall instant
        due_wall = cur["real_start"] + (occ.due - init) * factor
        if clock.t < due_wall:
            h.flag("C20.never_early", f"occurrence due t={occ.due} took effect at wall {clock.t}, due wall instant {due_wall}",
                   "C20.never_early")
    h.probe_hooks.append(on_probe)

    clock.burn(case["pre_gap"])
    plan = list(case["plan"])
    ended = None
    nsteps = 0
    while ended is None:
        op = plan.pop(0) if plan else ["step", 1]
        if op[0] == "burn":
            clock.burn(op[1])
            continue
        if op[0] == "sync":
            env.sync()
            real_start = clock.t
            classes.add("sync")
            continue
        if op[0] == "until":
            # run(until=<number>) is paced like everything else: it returns when the wall clock has reached the stop's due instant
            # (non-strict environments only - in strict mode the harness judges every single step)
            t_stop = env.now + op[1]
            if strict or not t_stop > env.now or env.peek() == inf:
                continue
            cur["real_start"] = real_start
            env.h_expect_until(t_stop)
            try:
                env.run(until=t_stop)
            except (HarnessError, WatchdogTrip, Inconclusive):
                raise
            except Violation:
                kdsl.check_problems(h)
                raise
            except BaseException as e:
                ended = kdsl._judge_raise(env, interp, e)
                continue
            kdsl.check_problems(h)
            due_wall = real_start + (t_stop - init) * factor
            if env.now != t_stop or clock.t < due_wall:
                raise Violation("C20.never_early", f"run(until={t_stop}) returned with now={env.now} at wall {clock.t}; the stop is due at "
                                                   f"wall instant {due_wall}", "C20.never_early/run-until")
            classes.add("run(until=number) paced")
            continue
        for _ in range(op[1]):
            nsteps += 1
            if nsteps > 3000:
                raise Inconclusive("step budget")
            pk = env.peek()
            cur["real_start"] = real_start
            if pk == inf:
                try:
                    env.step()
                except Exception as e:
                    if type(e).__name__ != "EmptySchedule":
                        raise crash("C20.empty", e)
                else:
                    raise Violation("C20.empty", "step() on an empty agenda returned", "C20.empty")
                ended = "exhausted"
                break
            due_wall = real_start + (pk - init) * factor
            lag = clock.t - due_wall
            expect_raise = strict and lag > factor
            if strict and abs(lag - factor) <= 0.25 * factor:
                st_["near"] += 1
            if lag >= factor / 2:
                st_["late"] += 1
            n_sleeps = len(clock.sleeps)
            step0 = h.step_no
            now0 = env.now
            try:
                env.step()
            except (HarnessError, WatchdogTrip, Inconclusive):
                raise
            except Violation:
                kdsl.check_problems(h)
                raise
            except RuntimeError as e:
                if str(e).startswith("Simulation too slow for real time"):
                    kdsl.check_problems(h)
                    if not strict:
                        raise Violation("C20.nonstrict_raises", f"non-strict environment raised: {e}", "C20.nonstrict_raises")
                    if not expect_raise:
                        raise Violation("C20.strict_spurious", f"strict step raised with lag {lag} <= factor {factor}",
                                        "C20.strict_spurious")
                    if h.cur_occ is not None:
                        raise Violation("C20.strict_processed", "step() raised 'too slow' but processed the occurrence",
                                        "C20.strict_processed")
                    if env.now != now0 or env.peek() != pk:
                        # the refused step processed nothing: the program goes on from where it was (same results as the plain
                        # kernel), so neither the clock nor the agenda may have moved
                        raise Violation("C20.strict_processed", f"step() raised 'too slow' without processing anything, yet now went "
                                                                f"from {now0} to {env.now} (next occurrence due {pk}, peek() now "
                                                                f"{env.peek()})", "C20.strict_processed/clock-moved")
                    st_["raised"] += 1
                    if case.get("retry") and retried_at != h.step_no - 1:
                        # the caller simply tries again without sync(): nothing has been re-based, the wall clock has not gone
                        # back, so the same occurrence must be refused again
                        retried_at = h.step_no
                        st_["retried"] = st_.get("retried", 0) + 1
                        continue
                    # resynchronise and go on (exercises sync re-basing)
                    env.sync()
                    real_start = clock.t
                    continue
                r = kdsl._judge_raise(env, interp, e)
                ended = r
                break
            except BaseException as e:
                ended = kdsl._judge_raise(env, interp, e)
                break
            kdsl.check_problems(h)
            if expect_raise:
                raise Violation("C20.strict_missing", f"strict step did not raise although the wall clock was {lag} > factor "
                                                      f"{factor} past the due instant", "C20.strict_missing")
            if len(clock.sleeps) > n_sleeps:
                st_["slept"] += 1
            occ = h.cur_occ
            if occ is not None and kdsl.predicted_unhandled(occ) is True:
                raise Violation("C02.failure_lost", "unhandled failure did not raise", "C02.failure_lost")
    kdsl.end_checks(interp, ended == "exhausted")
    interp.finished = True
    res = kdsl.RunResult()
    res.h, res.interp, res.env, res.ended = h, interp, env, ended
    # (a) same results as a plain Environment
    ref = kdsl.run_program(prog)
    if norm(ref.ended) != norm(ended) or norm(kdsl.trace_of(ref)) != norm(kdsl.trace_of(res)):
        raise Violation("C20.same_results", f"trace under RealtimeEnvironment differs from Environment (ended {ended} vs {ref.ended})",
                        "C20.same_results")
    if st_["slept"]:
        classes.add("step had to sleep")
    if st_["late"]:
        classes.add("step late by >= factor/2")
    if st_["near"]:
        classes.add("strict lag within 25% of factor")
    if st_["raised"]:
        classes.add("strict raise")
    if st_.get("retried"):
        classes.add("refused step retried without sync()")
    if any(f < 1 for d, f in clock.sleeps if d > 0):
        classes.add("early-returning sleep")
    if any(f == 0 for d, f in clock.sleeps):
        classes.add("sleep without progress")
    nt = st_["slept"] > 0 and st_["late"] > 0 and (not strict or st_["near"] > 0)
    return {"nontrivial": nt, "classes": sorted(classes)}


def strategy(tier):
    pol = kgen.policies(bias=["continue"] * 6, dl=st.sampled_from(DELAYS))
    progs = kgen.programs(WEIGHTS, max_bodies=4, max_instrs=7, max_start=5, max_nev=2, pol=pol, delay_set=DELAYS,
                          inits=(0, 0, 5, 2.5), min_instrs=2)
    op = kgen.weighted([(st.tuples(st.just("step"), st.integers(1, 5)).map(list), 4),
                        (st.tuples(st.just("burn"), st.sampled_from(BURNS)).map(list), 3),
                        (st.just(["sync"]), 1),
                        (st.tuples(st.just("until"), st.sampled_from([0.5, 1, 0.25, 2, 3])).map(list), 2)])
    return st.fixed_dictionaries({
        "prog": progs,
        "factor": st.sampled_from(FACTORS),
        "strict": st.booleans(),
        "retry": st.booleans(),
        "script": st.lists(st.sampled_from([1, 1, 1, 0.5, 0.25, 2, 1.5, 0]), min_size=1, max_size=5),
        "t0": st.sampled_from([0, 1000, 12345.5]),
        "pre_gap": st.sampled_from([0, 0, 0.0625, 0.5, 1, 4]),
        "plan": st.lists(op, max_size=10),
    })


PROP = Property(
    "C20",
    rule=("Generated kernel programs with burn(w) instructions (processes consuming wall time) run on a "
          "RealtimeEnvironment(initial_time, factor in 2^-4..4, strict) whose monotonic/sleep are a virtual clock with a "
          "generated sleep script (early return, exact, oversleep, no progress); driver plan interleaves step(), burn and "
          "sync(). All quantities dyadic so lag == factor is hit exactly. Oracle: (a) trace equals the same program on a "
          "plain Environment; (b) at every occurrence's processing wall >= real_start + (due - initial_time)*factor, "
          "real_start re-based by sync(); (c) strict step raises 'Simulation too slow' iff wall - due_wall > factor when "
          "step() is entered (both directions), without processing the occurrence; (d) non-strict never raises it. "
          "Non-trivial = some step slept, some step was >= factor/2 late, and (strict) some lag within 25% of factor."),
    facets=[Facet("programs", strategy, run_case, quick=2500, thorough=15000,
                  essential=["step had to sleep", "step late by >= factor/2", "strict lag within 25% of factor", "strict raise", "refused step retried without sync()",
                             "run(until=number) paced",
                             "early-returning sleep", "sleep without progress", "sync"])],
    assumptions=["wall clock is virtual: onl.sim.rt.monotonic/sleep replaced harness-side", "dyadic factors/delays/burns"],
)
