"""C03 - runs are reproducible and unaffected by where they are stopped and resumed (DESIGN 4/C03)."""
import hashlib
import json
import os
import subprocess
import sys
from math import inf

from hypothesis import HealthCheck, Phase, given, seed, settings
from hypothesis import strategies as st

from ..core import common, kdsl, kgen
from ..core.common import HarnessError, Inconclusive, Violation, WatchdogTrip, canon, crash
from ..runner import Facet, Property

WEIGHTS = {"timeout": 9, "wait": 3, "succeed": 4, "fail": 1, "join": 3, "spawn": 3, "interrupt": 2, "return": 1,
           "cb": 1}
DELAYS = [0, 1, 2, 3, 0.5, 0.25, 1.5, 0.1, 0.2, 0.3]
INEXACT = [round(0.1 * k, 1) for k in range(1, 120)]


def norm(x):
    return json.loads(json.dumps(x, default=common.jdefault))


def digest(trace):
    return hashlib.sha256(canon(norm(trace)).encode()).hexdigest()


def reference(prog):
    res = kdsl.run_program(prog)
    return res


class Split:
    def __init__(self, prog):
        self.env = kdsl.TracingEnvironment(initial_time=prog.get("init", 0))
        self.interp = kdsl.Interp(prog, self.env)
        self.h = self.env.h
        self.classes = set()
        self.stops = 0
        self.busy_stops = 0

    def pending_due(self, t):
        return [o for o in self.h.occs if o.proc_step is None and o.due == t and o.kind != "until"]

    def call(self, fn):
        """run a kernel call; returns ('ok', value) | ('raised', judged) ; Violations propagate"""
        h = self.h
        try:
            v = fn()
        except (HarnessError, WatchdogTrip, Inconclusive):
            raise
        except Violation:
            kdsl.check_problems(h)
            raise
        except BaseException as e:
            return ("exc", e)
        kdsl.check_problems(h)
        return ("ok", v)

    def do_num(self, t):
        env, h = self.env, self.h
        now0 = env.now
        n_occ = len(h.occs)
        step0 = h.step_no
        legal = t > now0
        if legal:
            env.h_expect_until(t)
        r = self.call(lambda: env.run(until=t))
        if not legal:
            if r[0] != "exc" or not isinstance(r[1], ValueError):
                raise Violation("C03.until_past", f"run(until={t!r}) at now={now0!r} did not raise ValueError: {r}", "C03.until_past")
            if len(h.occs) != n_occ or h.step_no != step0 or env.now != now0:
                raise Violation("C03.until_past", "refused run(until) changed the environment", "C03.until_past/effect")
            self.classes.add("illegal stop refused")
            return None
        if r[0] == "exc":
            return kdsl._judge_raise(env, self.interp, r[1])
        self.stops += 1
        if r[1] is not None:
            raise Violation("C03.until_number", f"run(until={t!r}) returned {r[1]!r}", "C03.until_number/value")
        if env.now != t:
            raise Violation("C03.until_number", f"run(until={t!r}) returned with now={env.now!r}", "C03.until_number/now")
        for o in h.occs:
            if o.kind == "until":
                continue
            if o.due < t and o.proc_step is None:
                raise Violation("C03.until_number", f"run(until={t!r}) returned but #{o.seq} {o.kind} due {o.due!r} has not "
                                                    "taken effect", "C03.until_number/left-behind")
            if o.due >= t and o.proc_step is not None:
                raise Violation("C03.until_number", f"run(until={t!r}) let #{o.seq} {o.kind} due {o.due!r} take effect",
                                "C03.until_number/leak")
        if self.pending_due(t):
            self.busy_stops += 1
            self.classes.add("stop at busy instant")
        return None

    def do_event(self, hev):
        env, h = self.env, self.h
        step0 = h.step_no
        was_processed = hev.processed_step is not None
        waiters_before = len(hev.W)
        r = self.call(lambda: env.run(until=hev.ev))
        if was_processed:
            if h.step_no != step0:
                raise Violation("C03.until_event", "run(until=<processed event>) stepped the simulation", "C03.until_event/stepped")
            if hev.expect[0] == "ok" and (r[0] != "ok" or r[1] != hev.expect[1]):
                raise Violation("C03.until_event", f"run(until=<processed {hev.name}>) gave {r}, value is {hev.expect}",
                                "C03.until_event/value-processed")
            self.classes.add("until-event already processed")
            return None
        if r[0] == "exc":
            e = r[1]
            if hev.processed_step is None:
                # never triggered: RuntimeError once the agenda is empty; or an unrelated unhandled failure
                occ = h.cur_occ
                if occ is not None and kdsl.predicted_unhandled(occ) is True:
                    return kdsl._judge_raise(env, self.interp, e)
                if isinstance(e, RuntimeError) and env.peek() == inf and hev.occ is None \
                        and str(e).startswith("No scheduled events left"):
                    self.classes.add("until-event never triggered")
                    return "exhausted"
                return kdsl._judge_raise(env, self.interp, e)
            if hev.expect[0] == "exc":
                # failed until-event: statement silent on whether its exception is raised or returned
                want = hev.expect
                if kdsl.exc_out(e) != want:
                    return kdsl._judge_raise(env, self.interp, e)
                self.classes.add("until-event failed")
                if kdsl.predicted_unhandled(hev.occ) is True:
                    # nobody else handled it: same ending as the uninterrupted run, which raises it from step()
                    return ("raised", want[1], want[2])
                return None
            return kdsl._judge_raise(env, self.interp, e)
        self.stops += 1
        if hev.processed_step is None:
            raise Violation("C03.until_event", f"run(until={hev.name}) returned before it was processed", "C03.until_event/early")
        if hev.expect[0] == "ok" and r[1] != hev.expect[1]:
            raise Violation("C03.until_event", f"run(until={hev.name}) returned {r[1]!r}, value is {hev.expect[1]!r}",
                            "C03.until_event/value")
        if h.step_no != hev.processed_step:
            raise Violation("C03.until_event", f"run(until={hev.name}) returned {h.step_no - hev.processed_step} step(s) after "
                                               "it was processed", "C03.until_event/late")
        snap = hev.snapshot or []
        if waiters_before and snap:
            self.classes.add("until-event with earlier waiters")
            self.busy_stops += 1
        if len(snap) > waiters_before:
            self.classes.add("until-event with later waiters")
            self.busy_stops += 1
        return None

    def do_steps(self, n):
        env, h = self.env, self.h
        for _ in range(n):
            if env.peek() == inf:
                r = self.call(env.step)
                if r[0] != "exc" or type(r[1]).__name__ != "EmptySchedule":
                    raise Violation("C03.step_empty", f"step() on an empty agenda: {r}", "C03.step_empty")
                return None
            r = self.call(env.step)
            if r[0] == "exc":
                return kdsl._judge_raise(env, self.interp, r[1])
            occ = h.cur_occ
            if occ is not None and kdsl.predicted_unhandled(occ) is True:
                raise Violation("C02.failure_lost", "unhandled failure did not raise in step()", "C02.failure_lost")
            self.stops += 1
        self.classes.add("step-only segment")
        return None

    def aftermath(self, limit=300):
        """the run was left by the exception of an unhandled failure; the environment stays usable: stepping on must still
        process what is pending in agenda order (C01 clauses of the tracing environment), raise exactly the unhandled failures"""
        env, h = self.env, self.h
        env.h_abandon_until()
        n = 0
        while env.peek() != inf and n < limit:
            r = self.call(env.step)
            n += 1
            if r[0] == "exc":
                kdsl._judge_raise(env, self.interp, r[1])
                continue
            occ = h.cur_occ
            if occ is not None and kdsl.predicted_unhandled(occ) is True:
                raise Violation("C02.failure_lost", "unhandled failure did not raise in step() (after an earlier raise)",
                                "C02.failure_lost/aftermath")
        return n

    def finish(self):
        env = self.env
        r = self.call(lambda: env.run())
        if r[0] == "exc":
            return kdsl._judge_raise(env, self.interp, r[1])
        if r[1] is not None:
            raise Violation("C03.run_none", f"run() returned {r[1]!r}", "C03.run_none")
        if env.peek() != inf:
            raise Violation("C03.run_none", "run() returned with events left", "C03.run_none/left")
        return "exhausted"


def run_split(case):
    prog, plan = case["prog"], case["plan"]
    ref = reference(prog)
    ref_trace = kdsl.trace_of(ref)
    sp = Split(prog)
    ended = None
    for stop in plan:
        kind = stop[0]
        if kind == "num":
            ended = sp.do_num(sp.env.now + stop[1])
        elif kind in ("fnum", "fdue"):
            if kind == "fnum":
                t_int = sp.env.now + stop[1]
            else:
                dues = sorted({o.due for o in sp.h.occs if o.proc_step is None and o.due > sp.env.now})
                if not dues:
                    continue
                t_int = dues[stop[1] % len(dues)]
            try:
                t_f = float(t_int)
            except OverflowError:
                continue
            if t_f != t_int or not t_int > sp.env.now:
                continue
            sp.classes.add("stop given as a float on an integer clock")
            ended = sp.do_num(t_f)
        elif kind == "abs":
            # "inf" is a legal stop: everything finite takes effect, the clock ends at infinity
            t_abs = float("inf") if stop[1] == "inf" else stop[1]
            if t_abs == float("inf") and sp.env.now != t_abs:
                sp.classes.add("stop at infinity")
            ended = sp.do_num(t_abs)
        elif kind == "inexact":
            # instants t for which now + (t - now) != t in floating point: "now == t" must still hold exactly
            now = sp.env.now
            cands = [c for c in INEXACT if c > now and now + (c - now) != c]
            if not cands:
                continue
            sp.classes.add("stop at float-inexact offset")
            ended = sp.do_num(cands[stop[1] % len(cands)])
        elif kind in ("due", "between"):
            def future():
                return sorted({o.due for o in sp.h.occs if o.proc_step is None and o.due > sp.env.now})
            dues = future()
            tries = 0
            while not dues and tries < 30 and sp.env.peek() != inf and ended is None:
                ended = sp.do_steps(1)
                tries += 1
                dues = future()
            if not dues or ended is not None:
                if ended is not None:
                    break
                continue
            t = dues[stop[1] % len(dues)]
            if kind == "between":
                t = (sp.env.now + t) / 2
            ended = sp.do_num(t)
        elif kind == "ev":
            if not sp.interp.events:
                continue
            ended = sp.do_event(sp.interp.events[stop[1] % len(sp.interp.events)])
        elif kind == "proc":
            ended = sp.do_event(sp.interp.procs[stop[1] % len(sp.interp.procs)].hev)
        elif kind == "step":
            ended = sp.do_steps(stop[1])
        if ended is not None:
            break
    if ended is None:
        ended = sp.finish()
    if ended == "exhausted" and sp.env.peek() != inf:
        ended = sp.finish()
    kdsl.end_checks(sp.interp, ended == "exhausted")
    res = kdsl.RunResult()
    res.h, res.interp, res.env, res.ended = sp.h, sp.interp, sp.env, ended
    got = kdsl.trace_of(res)
    if norm(ended) != norm(ref.ended):
        raise Violation("C03.split_equiv", f"uninterrupted run ended {ref.ended}, split run ended {ended}", "C03.split_equiv/end")
    if norm(got) != norm(ref_trace):
        a, b = norm(ref_trace[0]), norm(got[0])
        i = next((i for i, (x, y) in enumerate(zip(a, b)) if x != y), min(len(a), len(b)))
        raise Violation("C03.split_equiv", f"traces differ at entry {i}: single run {a[i:i+2]}, split run {b[i:i+2]}",
                        "C03.split_equiv/trace")
    classes = set(sp.classes)
    if isinstance(ended, tuple) and ended and ended[0] == "raised":
        if sp.aftermath() >= 3:
            classes.add("stepped on after run() raised")
    sp.interp.finished = True
    if sp.stops >= 2:
        classes.add(">=2 effective stops")
    return {"nontrivial": sp.stops >= 2 and sp.busy_stops >= 1, "classes": sorted(classes)}


def run_twice(case):
    a = kdsl.trace_of(kdsl.run_program(case))
    b = kdsl.trace_of(kdsl.run_program(case))
    if norm(a) != norm(b):
        raise Violation("C03.repro", "two executions of the same program in one interpreter differ", "C03.repro/inproc")
    return {"nontrivial": len(a[0]) >= 10, "classes": ["in-process repeat"]}


def prog_strategy(tier):
    big = tier == "thorough"
    pol = kgen.policies(bias=["continue"] * 6, dl=st.sampled_from(DELAYS))
    return kgen.programs(WEIGHTS, max_bodies=5, max_instrs=7, max_start=7 if big else 5, max_nev=3, min_nev=1,
                         pol=pol, delay_set=DELAYS, min_instrs=2, min_start=2)


def plan_strategy():
    num = st.tuples(st.just("num"), st.sampled_from([0, 1, 2, 0.5, 1, 0.25, 0.1, 0.3, 3, -1, 0.05])).map(list)
    ab = st.tuples(st.just("abs"), st.sampled_from([1, 2, 3, 0.5, 1.5, 0.3, 5, 6, 2.5, 2, 3, "inf"])).map(list)
    due = st.tuples(st.just("due"), st.integers(0, 3)).map(list)
    btw = st.tuples(st.just("between"), st.integers(0, 3)).map(list)
    ev = st.tuples(st.just("ev"), st.integers(0, 3)).map(list)
    pr = st.tuples(st.just("proc"), st.integers(0, 5)).map(list)
    stp = st.tuples(st.just("step"), st.integers(1, 6)).map(list)
    inx = st.tuples(st.just("inexact"), st.integers(0, 20)).map(list)
    stop = kgen.weighted([(due, 3), (stp, 2), (num, 2), (ab, 1), (btw, 1), (ev, 1), (pr, 2), (inx, 1)])
    return st.lists(stop, min_size=3, max_size=8)


def split_strategy(tier):
    return st.fixed_dictionaries({"prog": prog_strategy(tier), "plan": plan_strategy()})


BIG = [2 ** 53, 2 ** 53 + 1, 2 ** 60 + 3, 10 ** 18 + 7]


def bigclock_strategy(tier):
    """integer-tick clocks beyond 2**53 (picosecond ticks, ns since the epoch): every instant is an int that a float cannot
    represent; stops at odd offsets must be honoured exactly"""
    ints = [0, 1, 1, 2, 3, 5, 7]
    pol = kgen.policies(bias=["continue"] * 6, dl=st.sampled_from(ints))
    prog = kgen.programs(WEIGHTS, max_bodies=4, max_instrs=6, max_start=5, max_nev=2, min_nev=1, pol=pol, ipol=pol, delay_set=ints,
                         min_instrs=2, min_start=2, inits=BIG)
    num = st.tuples(st.just("num"), st.sampled_from([1, 1, 2, 3, 5, 7, 9, 0, -1])).map(list)
    # the same stop given as a float where a float can represent it: a stop does not change the type or value of anybody's clock
    fnum = st.tuples(st.just("fnum"), st.sampled_from([1, 2, 3, 4, 6, 8])).map(list)
    due = st.tuples(st.just("due"), st.integers(0, 3)).map(list)
    fdue = st.tuples(st.just("fdue"), st.integers(0, 3)).map(list)
    stp = st.tuples(st.just("step"), st.integers(1, 3)).map(list)
    return st.fixed_dictionaries({"prog": prog, "plan": st.lists(kgen.weighted([(num, 3), (fnum, 2), (due, 2), (fdue, 2), (stp, 1)]),
                                                                 min_size=2, max_size=7)})


def run_bigclock(case):
    info = run_split(case)
    return {"nontrivial": info["nontrivial"], "classes": [c for c in info["classes"] if c in (
        "stop at busy instant", ">=2 effective stops", "illegal stop refused", "stop given as a float on an integer clock")]
        + ["integer clock beyond 2**53"]}


# ------------------------------------------------------------------ other interpreters / hash seeds
def child_main(path):
    """executed in a fresh interpreter: print one digest per case"""
    common.WATCHDOG.install()
    cases = json.load(open(path))
    out = []
    for kind, case in cases:
        try:
            with common.quiet():
                out.append(digest_case(kind, case))
        except BaseException as e:
            out.append("ERR:" + type(e).__name__)
    print(json.dumps(out))


def digest_case(kind, case):
    if kind == "kernel":
        try:
            return digest(kdsl.trace_of(kdsl.run_program(case)))
        except Violation as v:
            return "VIOL:" + v.signature
    if kind == "res":
        from . import c03_res
        return c03_res.digest(case)
    from . import c03_net
    return c03_net.digest_scenario(case)


def collect_cases(strategy, n, seed_value):
    got = []

    @seed(seed_value)
    @settings(max_examples=n, database=None, deadline=None, phases=[Phase.generate],
              suppress_health_check=list(HealthCheck))
    @given(strategy)
    def grab(c):
        got.append(c)

    grab()
    return got


def hashseed_batch(tier, seed_value):
    n = 150 if tier == "quick" else 1500
    cases = [["kernel", c] for c in collect_cases(prog_strategy(tier), n, seed_value)]
    try:
        from . import c03_net
        cases += [["net", c] for c in collect_cases(c03_net.scenario_strategy(tier), n // 3, seed_value + 1)]
        cases += [["net", c] for c in collect_cases(c03_net.strclass_strategy(tier), n // 3, seed_value + 2)]
        from . import c03_res
        cases += [["res", c] for c in collect_cases(c03_res.res_strategy(tier), n // 3, seed_value + 3)]
    except ImportError:
        pass
    tmp = os.path.join(common.VERIF, ".shards", f"c03-batch-{os.getpid()}.json")
    os.makedirs(os.path.dirname(tmp), exist_ok=True)
    with open(tmp, "w") as f:
        json.dump(cases, f, default=common.jdefault)
    seeds = ["0", "1", "4242", str(seed_value % 4294967295)] if tier == "quick" else \
        ["0", "1", "2", "3", "4242", "99991", "random", str(seed_value % 4294967295)]
    with common.quiet():
        mine = [digest_case(k, c) for k, c in json.load(open(tmp))]
    results = {}
    procs = []
    for hs in seeds:
        env = dict(os.environ, PYTHONHASHSEED=hs)
        procs.append((hs, subprocess.Popen([sys.executable, "-c",
                                            "import sys; from pbt.props.c03 import child_main; child_main(sys.argv[1])", tmp],
                                           cwd=common.VERIF, env=env, stdout=subprocess.PIPE, text=True)))
    try:
        for hs, p in procs:
            out, _ = p.communicate(timeout=1800)
            if p.returncode != 0:
                # the parent interpreter has just digested the same batch without trouble
                raise Violation("C03.repro", f"the batch that ran in this interpreter failed in a fresh interpreter under "
                                             f"PYTHONHASHSEED={hs} (exit {p.returncode}): {(out or '').strip()[-300:]}",
                                "C03.repro/child-failed")
            results[hs] = json.loads(out.strip().splitlines()[-1])
    finally:
        os.unlink(tmp)
    for hs, ds in results.items():
        for i, (a, b) in enumerate(zip(mine, ds)):
            if a != b:
                v = Violation("C03.repro", f"case {i} ({cases[i][0]}): digest under PYTHONHASHSEED={hs} in a fresh interpreter "
                                           f"differs from the parent's ({b[:12]} vs {a[:12]})", "C03.repro/interpreter")
                v.case = {"kind": cases[i][0], "case": cases[i][1], "hashseed": hs}
                raise v
    return {"hashseed_batch": {"cases": len(cases), "interpreters": len(seeds), "hash_seeds": seeds,
                               "distinct_digests": len(set(mine))}}


def _net_split_strategy(tier):
    from . import c03_net
    return c03_net.net_split_strategy(tier)


def _run_net_split(case):
    from . import c03_net
    return c03_net.run_net_split(case)


def _res_strategy(tier):
    from . import c03_res
    return c03_res.res_strategy(tier)


def _run_res(case):
    from . import c03_res
    return c03_res.run_twice(case)


PROP = Property(
    "C03",
    rule=("(split) generated kernel program + generated split plan (run(until=now+d) with d from the delay grid incl. d<=0, "
          "absolute instants, run(until=shared event/process) incl. processed/never-triggered/failing ones, step()xn, then "
          "run()); oracle: ValueError for t<=now with no effect; on return now==t, everything due <t processed, nothing due "
          ">=t processed; run(until=event) returns the event's value in the very step that processed it (no step when already "
          "processed; RuntimeError when never triggered); concatenated trace == trace of one uninterrupted harness-stepped "
          "run (metamorphic), with all C01/C02/C04 bookkeeping clauses live in both; when a leg is left by the exception of an "
          "unhandled failure the environment is stepped on with the same clauses live (whether the kernel keeps or removes the "
          "abandoned stop is not judged). Non-trivial = >=2 effective stops of "
          "which >=1 at an instant with other due occurrences or on an event with waiters. (twice) same program executed "
          "twice in-process. (hashseed_batch) a batch of generated programs and network scenarios re-executed in fresh "
          "interpreters under several PYTHONHASHSEED values, SHA-256 of traces compared. (net_split) generated network pipelines "
          "(C08 grammar: generators -> elements -> sinks, seeded wire loss/RED) run uninterrupted, split by run(until)/step "
          "sequences, and repeated: the global tap trace must be identical. (resources) generated producer/consumer programs over "
          "a PriorityStore with many equal-priority items, a FilterStore and a PriorityResource, executed three times in one "
          "interpreter with the allocator's free lists stirred in between, and in the fresh interpreters of the batch: who got "
          "what when must be identical."),
    facets=[Facet("split", split_strategy, run_split, quick=2500, thorough=15000,
                  essential=["stop at busy instant", "until-event with earlier waiters", "until-event with later waiters",
                             "step-only segment", "stop at float-inexact offset",
                             "illegal stop refused", "until-event already processed", "until-event never triggered",
                             "stepped on after run() raised"]),
            Facet("bigclock", bigclock_strategy, run_bigclock, quick=500, thorough=3000,
                  essential=["stop at busy instant", ">=2 effective stops", "stop given as a float on an integer clock"]),
            Facet("twice", prog_strategy, run_twice, quick=300, thorough=2000),
            Facet("net_split", _net_split_strategy, _run_net_split, quick=600, thorough=3000,
                  essential=["network scenario split", "scenario with monitors"]),
            Facet("resources", _res_strategy, _run_res, quick=300, thorough=3000,
                  essential=["equal-priority items waiting together"])],
    assumptions=["a failed until-event may be raised or returned (statement silent)",
                 "other interpreters = fresh processes of the one CPython present, PYTHONHASHSEED varied"],
    extra=hashseed_batch,
)
