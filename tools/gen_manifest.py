#!/venv/bin/python
"""Regenerates MANIFEST.json from the table below (kept in one place so it is always schema-valid)."""
import json
import os
import sys

VERIF = os.path.realpath(os.path.join(os.path.dirname(__file__), ".."))

# id -> (built?, technique, level text, level note, design ref)
TB = ("Trusts the harness's own bookkeeping of who waits on what (kept by the program interpreter, never read from the "
      "kernel's callbacks lists) and that step() processes the head of Environment._queue (peek-mode tracing; cross-checked by "
      "the resume-source clause).")
EXPL = ("Generated-input search against an executable oracle; exploration of a universally quantified space, no proof of "
        "absence. Sensitivity measured by mutants/*.patch (tools/mutate.py).")

CHECKS = {
    "C01": ("Hypothesis-generated kernel programs vs reference agenda (min of pending by due/class/trigger-seq), every step",
            EXPL, "Trusts that every event reaches the agenda via Environment.schedule (overridden in a tracing subclass; the "
            "run(until=number) stop is announced by the harness) and that step() processes the head of Environment._queue.", "4/C01"),
    "C02": ("Hypothesis-generated kernel programs; harness bookkeeping of waiters W(E) vs observed invocations/outcomes; "
            "two-directional unhandled-failure prediction", EXPL, TB, "4/C02"),
    "C03": ("metamorphic: generated program x generated split plan (run(until=number|event), step) vs one uninterrupted run; "
            "repeat runs; fresh interpreters under several PYTHONHASHSEED", EXPL, TB, "4/C03"),
    "C04": ("Hypothesis-generated interrupt-heavy programs; per-victim FIFO bookkeeping, stale-target detection, metamorphic "
            "re-run without refused interrupts", EXPL, TB, "4/C04"),
    "C05": ("Hypothesis-generated condition trees over timeouts/events/processes vs a reference evaluator of decision instant, "
            "value and failure handling", EXPL, TB, "4/C05"),
    "C06": ("model-based histories (request/release/cancel/with-exit/preempt, grouped per instant) on Resource/"
            "PriorityResource/PreemptiveResource vs validity predicates over observed grants", EXPL,
            "Grants are observed as Request events being triggered (schedule hook of an Environment subclass); evictions as "
            "Interruption events carrying Preempted.", "4/C06"),
    "C07": ("model-based histories (put/get/cancel grouped per instant, clock advances) on Container/Store/PriorityStore/"
            "FilterStore vs a model updated only from observed grants; exact Fraction arithmetic", EXPL,
            "Grants are observed as Put/Get events being triggered (schedule hook of an Environment subclass).", "4/C07"),
    "C08": ("generated workloads through every element type between taps and through generated pipelines (fan-in, fan-out, "
            "splitter) vs conservation accounting at every step, identity/field preservation, per-flow order, generator law and "
            "sink books", EXPL,
            "Wire loss is the only uncounted discard (its amount is judged by C10); seeded randomness substituted harness-side.", "4/C08"),
    "C09": ("generated workloads through a tapped Port/PortMonitor/REDPort vs a reference FIFO server in Fractions driven by the "
            "observed arrival/departure interleaving; set-valued same-instant decisions; scripted RED draws", EXPL,
            "A tail drop is what the port counts in packets_dropped (cross-checked against what leaves); RED draws are a "
            "constant script substituted for onl.netdev.red_port.random.", "4/C09"),
    "C10": ("generated arrival sequences and scripted delay/loss draws through a tapped Wire/Cable vs max(a+d, previous delivery); "
            "binomial band for loss frequency; mapping-free bounds under loss with varying delays", EXPL,
            "onl.netdev.wire.random is replaced by a scripted/seeded generator; frequency clause is statistical (1e-9 band).", "4/C10"),
    "C11": ("generated workloads through TokenBucket/TwoRateTokenBucket vs a reference shaper in Fractions plus model-free "
            "conformance inequalities; committed-level interval for colours", EXPL,
            "What a yellow/red packet does to the committed bucket is unspecified: tracked as an interval.", "4/C11"),
    "C12": ("generated workloads through each of six schedulers vs the rate-exact work-conserving service law, per-flow FIFO, "
            "per-step counter agreement, Monitor samples", EXPL,
            "Configured flows with positive weights only (others make the schedulers spin; outside the statement).", "4/C12"),
    "C13": ("generated multi-level backlogs through SP; at every service start no certainly-waiting packet has higher priority", EXPL,
            "Certainly waiting = arrival observed before the previous exit (same-instant arrivals after it are set-valued).", "4/C13"),
    "C14": ("stamps recomputed in Fractions from the observed history (WFQ virtual time, VC auxVC) vs the observed service order; "
            "static-backlog fairness bound", EXPL,
            "A class is backlogged while it has packets waiting or in transmission.", "4/C14"),
    "C15": ("reference round-robin visitor (RR/WRR/DRR) replayed on observed arrivals must reproduce the exact transmission "
            "sequence; model-free DRR credit bounds and fairness windows", EXPL,
            "Arrivals after t=0 carry unique 2^-16 offsets so visibility at each decision is unambiguous.", "4/C15"),
    "C16": ("TCPSink: generated + bounded-exhaustive arrival sequences vs contiguous-prefix reference; end-to-end sender/wire/"
            "sink loops with generated finite data/ACK drop sets vs bounded-liveness completion", EXPL,
            "Liveness judged in bounded form (agenda exhaustion or a 1e9 s horizon; step budget => inconclusive).", "4/C16"),
    "C17": ("model-based ACK/dup-ACK/timer histories on a bare sender vs a reference Reno/CUBIC sender written from the statement, "
            "compared after every rule and against the tap", EXPL,
            "CUBIC congestion-avoidance growth is compared with a transcription of the code (statement gives no formula).", "4/C17"),
    "C18": ("generated tables/populations/topologies for FlowDemux, FIBDemux, switches, Hub, splitters, FatTree(k) with FIB walk and "
            "end-to-end fat-tree simulation vs the routing rules of the statement", EXPL,
            "SP inside FairPacketSwitch is configured per flow; table port numbers non-negative.", "4/C18"),
    "C19": ("generated scenarios (creator, sleeping actors calling stop/restart, scripted callback) vs a reference timer replayed "
            "over the harness log in execution order", EXPL,
            "Same-instant order of calls and expiries is taken from the harness log; two cases are left unjudged as unspecified "
            "(see rule).", "4/C19"),
    "C20": ("differential RealtimeEnvironment vs Environment on generated programs under a virtual wall clock; two-directional "
            "strict-mode prediction; never-early check at every occurrence", EXPL,
            "onl.sim.rt.monotonic/sleep are replaced by a scripted virtual clock; probes at the head of event.callbacks.", "4/C20"),
}

PENDING_REASON = "check not built yet in this revision (planned; see DESIGN.md section 4)"


def main():
    props = [json.loads(l) for l in open(os.path.join(VERIF, "properties.jsonl"))]
    checks = []
    na = []
    for p in props:
        pid = p["id"]
        if pid in CHECKS:
            tech, text, note, ref = CHECKS[pid]
            checks.append({
                "property_id": pid,
                "quick_cmd": f"./check {pid} quick",
                "thorough_cmd": f"./check {pid} thorough",
                "evidence_file": f"evidence/{pid}.json",
                "replay_cmd_template": "./check --replay {path}",
                "engine": "pbt",
                "level_claimed": {"category": "exploration", "text": text, "design_ref": f"DESIGN.md section {ref}"},
                "level_note": note,
                "technique": tech,
            })
        else:
            na.append({"property_id": pid, "reason": PENDING_REASON})
    m = {
        "version": 1,
        "setup_cmd": "./setup.sh",
        "hooks": {
            "guard": "ONL_EDU_VERIF",
            "enable": "no source hooks are needed: checks import /repo's working tree directly (PYTHONPATH) and observe it "
                      "through subclassing, recording devices and harness-side substitution of module-level names; "
                      "./check exports ONL_EDU_VERIF=1 for uniformity",
            "baseline_off_cmd": "cd /repo && /venv/bin/python -m pytest -ra -q -p no:cacheprovider --timeout=900 "
                                "--continue-on-collection-errors",
            "source_commits": [],
            "add_only": True,
        },
        "engines": [{"name": "pbt", "path": "pbt/runner.py", "serves_properties": sorted(CHECKS),
                     "kind_free_text": "Hypothesis 6.168 property-based testing: generated programs / histories / workloads "
                                       "against reference models, metamorphic relations and validity predicates; "
                                       "collect-then-shrink, JSON replays"}],
        "checks": checks,
        "not_applicable": na,
        "notes": "All checks: ./check <ID> quick|thorough; replay: ./check --replay <file>. Known findings: KNOWN_FINDINGS.jsonl.",
    }
    with open(os.path.join(VERIF, "MANIFEST.json"), "w") as f:
        json.dump(m, f, indent=1)
    try:
        import jsonschema
        jsonschema.validate(m, json.load(open("/root/.vp/MANIFEST.schema.json")))
        print("MANIFEST.json valid;", len(checks), "checks,", len(na), "not claimed")
    except ImportError:
        print("MANIFEST.json written (jsonschema unavailable)")


if __name__ == "__main__":
    main()
