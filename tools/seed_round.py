#!/usr/bin/env python3
"""seed_round.py <suffix> [PROP...]: prepares one round of seeded changes: a scratch worktree of /repo per property under
/tmp/seedwt/<PROP>-<suffix> and a prompt /tmp/seedwt/<PROP>-<suffix>.prompt built from tools/seed-prompt-template.txt, the
property text (properties.jsonl - nothing else from /verif) and the one-line summaries of the changes earlier rounds made
for that property (so that the new author does something different)."""
import glob, json, os, re, subprocess, sys
V = os.path.realpath(os.path.join(os.path.dirname(__file__), ".."))
suffix = sys.argv[1]
props = {}
for l in open(os.path.join(V, "properties.jsonl")):
    p = json.loads(l)
    props[p["id"]] = p
want = sys.argv[2:] or sorted(props)
tmpl = open(os.path.join(V, "tools/seed-prompt-template.txt")).read()
os.makedirs("/tmp/seedwt", exist_ok=True)
for pid in want:
    wt = f"/tmp/seedwt/{pid}-{suffix}"
    if not os.path.exists(wt):
        subprocess.run(["git", "-C", "/repo", "worktree", "add", "--detach", "-f", wt, "HEAD"], check=True, capture_output=True)
    p = props[pid]
    text = "\n".join(f"{k}: {p[k]}" for k in p if k not in ("id",) and isinstance(p[k], str))
    used = []
    for n in sorted(glob.glob(os.path.join(V, "seeded", pid + "-*", "notes.md"))):
        body = open(n).read()
        head = body.strip().splitlines()[0].lstrip("# ").strip()
        m = re.search(r"(?im)^[-* ]*\**(change|changed|what changed)[^\n]*", body)
        diff = open(os.path.join(os.path.dirname(n), "patch.diff")).read()
        files = sorted(set(re.findall(r"^\+\+\+ b/(\S+)", diff, re.M)))
        used.append(f"  - [{', '.join(files)}] {head[:160]}" + (f" :: {m.group(0).strip()[:260]}" if m else ""))
    prompt = tmpl.replace("__WT__", wt).replace("__PROP__", text)
    if used:
        prompt += ("\n\nChanges ALREADY produced by earlier authors for this property - yours must be different in kind (a different clause "
                   "of the statement, a different code site or a different triggering situation), not a variation of one of these:\n"
                   + "\n".join(used) + "\n")
    open(wt + ".prompt", "w").write(prompt)
    print(pid, wt, len(used), "earlier")
