#!/bin/bash
# seedsweep.sh "<seeds>" [tier]: every registered check at several VERIF_SEED values; prints anything that is not exit 0.
cd "$(dirname "$0")/.."
SEEDS="${1:-2 3 5 7 11}"
TIER="${2:-quick}"
mkdir -p .sweep
for s in $SEEDS; do
  for n in $(seq -w 1 20); do echo "$s C$n"; done
done | xargs -P "${SWEEP_JOBS:-12}" -L 1 bash -c 'VERIF_SEED=$0 ./check $1 '"$TIER"' > .sweep/$1-$0.log 2>&1; rc=$?; echo "seed=$0 $1 exit=$rc $(tail -1 .sweep/$1-$0.log | cut -c1-150)"' | sort | tee .sweep/summary.txt | grep -v "exit=0" 
echo "done: $(grep -c 'exit=0' .sweep/summary.txt) ok, $(grep -vc 'exit=0' .sweep/summary.txt) not ok"
