#!/bin/bash
# seed_eval_round.sh <suffix> [PROP...]: evaluates the deliveries of one round (/tmp/seedwt/<PROP>-<suffix>/_out) that are not yet recorded
cd "$(dirname "$0")/.."
sfx="$1"; shift
props="${*:-$(seq -f 'C%02g' 1 20)}"
for p in $props; do
  [ -f /tmp/seedwt/$p-$sfx/_out/patch.diff ] && [ -f /tmp/seedwt/$p-$sfx/_out/demo.py ] && echo "$p-$sfx $p /tmp/seedwt/$p-$sfx/_out"
done | xargs -P "${SEED_JOBS:-5}" -I{} bash -c 'tools/seed_eval.py {}' 2>&1 | grep -E "^(CAUGHT|MISSED|PATCH)" | cut -c1-330 | sort
git checkout -- evidence
