#!/venv/bin/python
"""seed_eval.py <name> <PROP> <dir-with-patch.diff-and-demo.py> [extra PROP ...]

Confirms a seeded change independently (scratch copy of /repo's working tree: patch applies, pinned tests pass, demo fails
with the change and passes without), runs ./check <PROP> quick (and thorough if quick misses and --thorough given) against
the scratch copy, and stores patch.diff, demo.py, notes.md and meta.json under /verif/seeded/<name>/. Scratch copy removed."""
import json
import os
import shutil
import subprocess
import sys
import tempfile
import time

VERIF = os.path.realpath(os.path.join(os.path.dirname(__file__), ".."))
REPO = "/repo"
PY = "/venv/bin/python"


def sh(cmd, **kw):
    return subprocess.run(cmd, capture_output=True, text=True, **kw)


def main():
    args = [a for a in sys.argv[1:] if not a.startswith("--")]
    thorough = "--thorough" in sys.argv
    name, prop, src = args[0], args[1], args[2]
    extra = args[3:]
    dst = os.path.join(VERIF, "seeded", name)
    os.makedirs(dst, exist_ok=True)
    for f in ("patch.diff", "demo.py", "notes.md"):
        p = os.path.join(src, f)
        if os.path.exists(p) and os.path.realpath(p) != os.path.realpath(os.path.join(dst, f)):
            shutil.copy(p, os.path.join(dst, f))
    d = tempfile.mkdtemp(prefix="onlseed-")
    meta = {"name": name, "property": prop, "also_checked": extra, "repo_head": sh(["git", "-C", REPO, "rev-parse", "--short", "HEAD"]).stdout.strip()}
    try:
        for sub in ("onl", "tests"):
            shutil.copytree(os.path.join(REPO, sub), os.path.join(d, sub), ignore=shutil.ignore_patterns("__pycache__"))
        r = sh(["patch", "-p1", "-s", "-d", d, "-i", os.path.join(dst, "patch.diff")])
        meta["patch_applies"] = r.returncode == 0
        if r.returncode != 0:
            meta["patch_error"] = (r.stdout + r.stderr)[-500:]
            print("PATCH FAILED", meta["patch_error"])
        env = dict(os.environ, PYTHONPATH=d, PYTHONDONTWRITEBYTECODE="1")
        t = sh([PY, "-m", "pytest", "-q", "-p", "no:cacheprovider", "--timeout=120", "tests"], cwd=d, env=env)
        if t.returncode != 0 and "test_rt" in t.stdout:        # the repository's wall-clock test flakes when the machine is loaded
            t = sh([PY, "-m", "pytest", "-q", "-p", "no:cacheprovider", "--timeout=120", "tests"], cwd=d, env=env)
        meta["tests"] = t.stdout.strip().splitlines()[-1] if t.stdout.strip() else t.stderr[-200:]
        meta["tests_pass"] = t.returncode == 0
        demo = os.path.join(dst, "demo.py")
        try:
            c = sh([PY, demo], env=env, cwd=dst, timeout=300)
            meta["demo_on_changed_exit"] = c.returncode
            meta["demo_on_changed_msg"] = (c.stdout + c.stderr).strip()[-300:]
        except subprocess.TimeoutExpired:
            meta["demo_on_changed_exit"] = "timeout"
        o = sh([PY, demo], env=dict(env, PYTHONPATH=REPO), cwd=dst, timeout=300)
        meta["demo_on_original_exit"] = o.returncode
        meta["confirmed"] = bool(meta["patch_applies"] and meta["tests_pass"] and meta["demo_on_changed_exit"] not in (0,)
                                 and meta["demo_on_original_exit"] == 0)
        meta["checks"] = {}
        for p in [prop] + extra:
            for tier in ["quick"] + (["thorough"] if thorough else []):
                t0 = time.time()
                c = sh([os.path.join(VERIF, "check"), p, tier], env=dict(os.environ, ONL_REPO=d))
                viol = [l for l in c.stdout.splitlines() if l.startswith("violation ")]
                meta["checks"][f"{p}/{tier}"] = {"exit": c.returncode, "seconds": round(time.time() - t0, 1),
                                                 "first_violation": viol[0][:300] if viol else None}
                if c.returncode == 1:
                    break
        meta["caught"] = any(v["exit"] == 1 for v in meta["checks"].values())
    finally:
        shutil.rmtree(d, ignore_errors=True)
    old = {}
    mp = os.path.join(dst, "meta.json")
    if os.path.exists(mp):
        old = json.load(open(mp))
    for k in ("needs", "what_breaks", "history"):
        if k in old:
            meta[k] = old[k]
    meta.setdefault("history", []).append({"at": time.strftime("%Y-%m-%dT%H:%M:%SZ", time.gmtime()),
                                           "caught": meta["caught"], "checks": {k: v["exit"] for k, v in meta["checks"].items()}})
    json.dump(meta, open(mp, "w"), indent=1)
    # evidence files were rewritten by the check against the scratch copy: restore the committed ones
    sh(["git", "-C", VERIF, "checkout", "--", "evidence"])
    print(("CAUGHT " if meta["caught"] else "MISSED ") + name, "confirmed" if meta["confirmed"] else "NOT-CONFIRMED",
          json.dumps(meta["checks"]))


if __name__ == "__main__":
    main()
