#!/venv/bin/python
"""writes seeded/INDEX.md from seeded/*/meta.json"""
import json, os
V = os.path.realpath(os.path.join(os.path.dirname(__file__), ".."))
rows = []
for d in sorted(os.listdir(os.path.join(V, "seeded"))):
    mp = os.path.join(V, "seeded", d, "meta.json")
    if not os.path.exists(mp):
        continue
    m = json.load(open(mp))
    patch = open(os.path.join(V, "seeded", d, "patch.diff")).read()
    files = sorted({l[6:].strip() for l in patch.splitlines() if l.startswith("+++ b/")})
    caught = [k for k, v in m["checks"].items() if v["exit"] == 1]
    first = next((v["first_violation"] for v in m["checks"].values() if v["exit"] == 1), "") or ""
    hist = m.get("history", [])
    missed_first = bool(hist) and not hist[0]["caught"]
    oos = ""
    op = os.path.join(V, "seeded", d, "OUT_OF_SCOPE.md")
    if os.path.exists(op):
        oos = "outside the property as stated: " + open(op).read().strip().splitlines()[0]
    rows.append((d, m["property"], ", ".join(files), "yes" if m.get("confirmed") else "NO",
                 ", ".join(caught) or ("not claimed" if oos else "MISSED"),
                 oos or ("missed at first, check strengthened" if missed_first and caught else ""), first.split("] ", 1)[-1][:110].replace("|", "/")))
with open(os.path.join(V, "seeded", "INDEX.md"), "w") as f:
    f.write("# Seeded changes (written by sub-agents from the property text only)\n\n")
    f.write("Each directory holds patch.diff, demo.py, notes.md (the author's) and meta.json (what was confirmed and run here).\n\n")
    f.write("| name | property | file(s) changed | confirmed | caught by (quick) | note | first violation reported |\n|---|---|---|---|---|---|---|\n")
    for r in rows:
        f.write("| " + " | ".join(r) + " |\n")
print(len(rows), "seeds;", sum(1 for r in rows if r[4] not in ("MISSED", "not claimed")), "caught;",
      sum(1 for r in rows if r[4] == "not claimed"), "outside the stated property;", sum(1 for r in rows if r[4] == "MISSED"), "missed")
