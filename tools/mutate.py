#!/venv/bin/python
"""mutate.py [--tests] [--tier quick] [pattern...]: sensitivity study (DESIGN 6).
For each mutants/<PROPS>-<name>.patch: copy the tree to a scratch dir, apply, run ./check <PROP> quick for each
PROP in the file-name prefix with ONL_REPO=<scratch>, expect exit 1 + VIOLATION; remove the scratch dir."""
import fnmatch
import os
import shutil
import subprocess
import sys
import tempfile
import time
from concurrent.futures import ThreadPoolExecutor

VERIF = os.path.realpath(os.path.join(os.path.dirname(__file__), ".."))
REPO = "/repo"
args = sys.argv[1:]
run_tests = "--tests" in args
tier = "quick"
if "--tier" in args:
    tier = args[args.index("--tier") + 1]
pats = [a for a in args if not a.startswith("--") and a != tier] or ["*"]
scale = os.environ.get("VERIF_SCALE", "1")


def one(fn):
    name = fn[:-6]
    props = name.split("-")[0].split(",")
    d = tempfile.mkdtemp(prefix="onlmut-")
    try:
        subprocess.run(["git", "-C", REPO, "archive", "--format=tar", "HEAD", "-o", d + "/t.tar"], check=False)
        # use the working tree, not HEAD: copy tracked dirs
        shutil.rmtree(d)
        os.makedirs(d)
        shutil.copytree(os.path.join(REPO, "onl"), os.path.join(d, "onl"), ignore=shutil.ignore_patterns("__pycache__"))
        shutil.copytree(os.path.join(REPO, "tests"), os.path.join(d, "tests"), ignore=shutil.ignore_patterns("__pycache__"))
        r = subprocess.run(["patch", "-p1", "-s", "-d", d, "-i", os.path.join(VERIF, "mutants", fn)], capture_output=True, text=True)
        if r.returncode != 0:
            return name, "PATCH-FAILED " + r.stdout.strip()[:100], ""
        tests = ""
        if run_tests:
            env = dict(os.environ, PYTHONPATH=d, PYTHONDONTWRITEBYTECODE="1")
            t = subprocess.run(["/venv/bin/python", "-m", "pytest", "-q", "-x", "-p", "no:cacheprovider", "--timeout=60", "tests"],
                               cwd=d, env=env, capture_output=True, text=True)
            tests = "tests-pass" if t.returncode == 0 else "tests-FAIL"
        res = []
        for p in props:
            env = dict(os.environ, ONL_REPO=d, VERIF_SCALE=scale)
            t0 = time.time()
            c = subprocess.run([os.path.join(VERIF, "check"), p, tier], env=env, capture_output=True, text=True)
            viol = [l for l in c.stdout.splitlines() if l.startswith("violation ")]
            res.append(f"{p}:exit{c.returncode}({time.time()-t0:.0f}s) {viol[0][:150] if viol else ''}")
        return name, " | ".join(res), tests
    finally:
        shutil.rmtree(d, ignore_errors=True)


files = sorted(f for f in os.listdir(os.path.join(VERIF, "mutants")) if f.endswith(".patch")
               and any(fnmatch.fnmatch(f, p + "*") or fnmatch.fnmatch(f, "*" + p + "*") for p in pats))
with ThreadPoolExecutor(8) as ex:
    for name, res, tests in ex.map(one, files):
        caught = "exit1" in res
        print(("CAUGHT " if caught else "MISSED ") + name, tests, res, flush=True)
