#!/bin/bash
# runs every thorough check once, sequentially (each uses 16 worker processes); prints one line per property
cd "$(dirname "$0")/.."
for n in $(seq -w 1 20); do
  s=$(date +%s)
  ./check C$n thorough > .thorough-C$n.log 2>&1; rc=$?
  echo "C$n exit=$rc $(( $(date +%s) - s ))s $(tail -1 .thorough-C$n.log | cut -c1-160)"
done
