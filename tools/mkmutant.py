#!/venv/bin/python
"""mkmutant.py <PROP[,PROP..]>-<name> <file relative to repo> <old> <new> [count]
Creates mutants/<name>.patch: the unified diff of replacing the (unique, or count-th) occurrence of <old>."""
import difflib
import os
import sys

VERIF = os.path.realpath(os.path.join(os.path.dirname(__file__), ".."))
REPO = os.environ.get("ONL_REPO", "/repo")
name, rel, old, new = sys.argv[1:5]
nth = int(sys.argv[5]) if len(sys.argv) > 5 else None
src = open(os.path.join(REPO, rel)).read()
old = old.replace("\\n", "\n")
new = new.replace("\\n", "\n")
n = src.count(old)
if n == 0 or (n > 1 and nth is None):
    sys.exit(f"{name}: pattern occurs {n} times in {rel}")
if nth is None:
    dst = src.replace(old, new)
else:
    parts = src.split(old)
    dst = old.join(parts[:nth]) + new + old.join(parts[nth:])
diff = "".join(difflib.unified_diff(src.splitlines(True), dst.splitlines(True), "a/" + rel, "b/" + rel))
open(os.path.join(VERIF, "mutants", name + ".patch"), "w").write(diff)
print("wrote", name)
