#!/bin/bash
# re-evaluates every seeded change against the current /repo HEAD and the current checks (SEED_JOBS at a time)
cd "$(dirname "$0")/.."
ls seeded | grep -v INDEX | while read d; do
  python3 - "$d" <<'PY'
import json, sys
d = sys.argv[1]
m = json.load(open(f"seeded/{d}/meta.json"))
print(" ".join([d, m["property"], f"seeded/{d}"] + m.get("also_checked", [])).strip())
PY
done | xargs -P "${SEED_JOBS:-4}" -I{} bash -c 'tools/seed_eval.py {}' 2>&1 | grep -E "^(CAUGHT|MISSED|PATCH)" | cut -c1-230 | sort
tools/seed_index.py
