#!/bin/bash
# re-evaluates every seeded change against the current /repo HEAD and the current checks (4 at a time)
cd "$(dirname "$0")/.."
ls seeded | grep -v INDEX | while read d; do
  p=$(python3 -c "import json;print(json.load(open('seeded/$d/meta.json'))['property'])")
  a=$(python3 -c "import json;print(' '.join(json.load(open('seeded/$d/meta.json')).get('also_checked',[])))")
  echo "$d $p seeded/$d $a"
done | xargs -P "${SEED_JOBS:-4}" -L 1 tools/seed_eval.py 2>&1 | grep -E "^(CAUGHT|MISSED|PATCH)" | sort
tools/seed_index.py
